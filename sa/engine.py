"""Run the rules of one property, classify findings, write evidence, set exit code."""
from __future__ import annotations

import json
import os
import sys
import time
import traceback
from typing import Dict, List

from . import AnalysisError
from .ctx import Ctx
from .report import (EVIDENCE_DIR, VERIF, Finding, RuleResult, classify, load_known, write_json)

ASSUMPTIONS = [
    "CPython/ast semantics; the source files under /repo/numpoly are what is imported",
    "A-DISPATCH: numpy's override protocol hands the callable and the caller's arguments "
    "unchanged to __array_ufunc__/__array_function__",
    "A-NUMPY-PURE: numpy functions called without out= do not modify their inputs",
    "A-KWARGS: **kwargs forwarded by a wrapper carry no out= of their own",
    "the numpy installed in /venv is the one the repository runs against",
    "the pre-built cfunctions/*.so correspond to the .pyx sources on disk (no Cython to rebuild)",
]


DIVISION_PROPERTIES = {"C05", "C08"}
DIVISION_DUNDERS = {"__truediv__", "__rtruediv__", "__div__", "__rdiv__", "__mod__", "__rmod__",
                    "__divmod__", "__rdivmod__"}


def load_properties() -> Dict[str, dict]:
    props = {}
    with open(os.path.join(VERIF, "properties.jsonl"), encoding="utf-8") as handle:
        for line in handle:
            if line.strip():
                rec = json.loads(line)
                props[rec["id"]] = rec
    return props


def scope_of(ctx: Ctx, prop: dict):
    files = [f for f in prop["anchors"]["files"] if f.endswith((".py", ".pyx"))]
    roots = ctx.functions_in_files(files)
    # 'numpoly/array_function/ (all modules)'
    for entry in prop["anchors"]["files"]:
        if "(all modules)" in entry:
            prefix = entry.split(" ")[0]
            for rel, module in ctx.repo.by_relpath.items():
                if rel.startswith(prefix):
                    roots.extend(f"{module.name}.{q}" for q in module.functions)
    if prop["id"] not in DIVISION_PROPERTIES:
        # baseclass.py is an anchor of several properties for its properties/indexing; the polynomial
        # division operators defined there belong to C05/C08 only
        roots = [r for r in roots if r.split(".")[-1] not in DIVISION_DUNDERS]
    return roots, ctx.reachable(roots)


def run_property(pid: str, tier: str, seed: int, explain: bool = False) -> int:
    from .plan import PLAN, RULES

    started = time.time()
    props = load_properties()
    if pid not in props or pid not in PLAN:
        print(f"ANALYSIS-ERROR property={pid} unknown property or no plan")
        return 2
    prop = props[pid]
    spec = PLAN[pid]
    try:
        ctx = Ctx(deep=(tier == "thorough"))
        roots, scope = scope_of(ctx, prop)
        per_rule = []
        violations: List[Finding] = []
        known_hits = []
        known = load_known()
        total_ob = total_ok = 0
        distinct = set()
        samples = []
        for use in spec["uses"]:
            result: RuleResult = RULES[use.rule](ctx)
            obligations = result.obligations
            findings = result.findings
            if use.scoped:
                findings = [f for f in findings if f.fq in scope or f.fq.rsplit(".", 1)[0] in scope]
            if use.only is not None:
                findings = [f for f in findings if use.only(f)]
                obligations = [o for o in obligations if use.only_ob(o)] if use.only_ob else obligations
            # vacuity guard: the floors were set from the instance counts confirmed by hand; half of that is
            # still far from "matched nothing" and leaves room for refactorings that merge or hoist sites
            if len(result.obligations) < max(1, result.floor // 2):
                raise AnalysisError(
                    f"rule {result.rule} matched {len(result.obligations)} instances, "
                    f"fewer than half of the confirmed floor {result.floor} (vacuity guard)"
                )
            n_ob = len(obligations)
            n_ok = sum(1 for o in obligations if o["ok"])
            total_ob += n_ob
            total_ok += n_ok
            distinct.update((result.rule, o.get("id"), o.get("where")) for o in obligations)
            rule_known = []
            rule_viol = []
            for finding in findings:
                entry = classify(finding, pid, known)
                if entry is not None:
                    rule_known.append((finding, entry))
                else:
                    rule_viol.append(finding)
            violations.extend(rule_viol)
            known_hits.extend(rule_known)
            per_rule.append({
                "rule": result.rule,
                "use": use.rule,
                "clause": use.clause,
                "description": result.description,
                "obligations": n_ob,
                "discharged": n_ok,
                "floor": result.floor,
                "scoped_to_property_call_graph": use.scoped,
                "confirmed_exceptions": result.exceptions,
                "info": result.info,
                "findings": [f.to_json() for f in findings],
            })
            for o in obligations[:3]:
                samples.append({"rule": result.rule, **o})
        selftest = None
        selftest_code = 0
        sweep = None
        if tier == "thorough":
            from .selftest import run_selftest

            selftest_code, selftest = run_selftest(pid, seed)
            # a seeded sample of generic one-edit mutants of the anchor files, analysed with this property's rules:
            # measures how much of the anchor code the clauses constrain (information, never a verdict)
            try:
                from .selftest.sweep import sample_sweep

                sweep = sample_sweep(pid, seed, size=int(os.environ.get("VERIF_SWEEP_SIZE", "48")))
                print(f"{pid} thorough: mutant sample (seed {seed}): {sweep['reported']} reported, {sweep['engine_gave_up']} "
                      f"engine gave up, {sweep['silent']} silent of {sweep['sampled']} sampled ({sweep['generated']} generated)")
            except Exception as exc:  # noqa: BLE001 - a measurement must not turn into a verdict
                sweep = {"error": f"{type(exc).__name__}: {exc}"[:200]}
        wall = time.time() - started
        # output
        replay_dir = os.path.join(EVIDENCE_DIR, "replay")
        for finding, entry in known_hits:
            print(f"KNOWN-FINDING: property={pid} {entry.get('id', '')} {finding}")
        exit_code = 0
        for idx, finding in enumerate(violations):
            path = os.path.join(replay_dir, f"{pid}-{idx}.json")
            write_json(path, {"property": pid, "tier": tier, **finding.to_json(),
                              "entry_points": _entry_chain(ctx, roots, finding)})
            print(f"VIOLATION property={pid} replay={path}")
            print(f"  {finding}")
            for line in finding.derivation[:12]:
                print(f"    {line}")
            exit_code = 1
        coverage = {
            "explanation": spec["explanation"],
            "not_decided": spec["not_decided"],
            "obligations": total_ob,
            "discharged": total_ok,
            "checker_cmd": f"/venv/bin/python /verif/check {pid} --tier {tier}",
            "trusted_base": ["CPython ast", f"numpy metadata"],
            "evaluations": total_ob,
            "distinct_nontrivial": len(distinct),
            "rule": "one evaluation = one rule instance (call site on one enumerated path, registry entry, "
                    "allocation site, parameter, option read, ...) examined on the current tree. distinct = "
                    "distinct (rule, instance, file:line) triples: the same call site met on several paths is "
                    "evaluated per path but counted once. Rules create no obligation for constructs they skip, "
                    "so every counted instance is one whose operands/provenance the rule had to inspect",
            "samples": samples[:12],
            "exhaustive": True,
            "loop_unrolling": ("thorough: loops unrolled up to 3 times (6x path budget), single-unrolling rules "
                               "get 2" if tier == "thorough" else "quick: loops unrolled up to 2 times, 1 when a "
                               "function exceeds 1500 paths"),
            "paths_enumerated": sum(len(v) for v in ctx._paths.values() if isinstance(v, list)),
            "rules": per_rule,
            "files_analysed": len(ctx.repo.modules),
            "functions_analysed": sum(len(m.functions) for m in ctx.repo.modules.values()),
            "scope_functions": len(scope),
            "calls_resolved": ctx.resolved_calls,
            "calls_unresolved": ctx.unresolved_calls,
            "source_digests": ctx.repo.digest(),
            "self_validation": selftest if selftest is not None else "thorough tier only",
            "mutant_sample": sweep if tier == "thorough" else "thorough tier only",
            "known_findings_printed": [
                {"id": e.get("id"), **f.to_json()} for f, e in known_hits
            ],
        }
        evidence = {
            "property_id": pid,
            "tier": tier,
            "seed": seed,
            "level": "other",
            "coverage": coverage,
            "assumptions": ASSUMPTIONS,
            "wall_s": round(wall, 3),
            "violations": len(violations),
        }
        write_json(os.path.join(EVIDENCE_DIR, f"{pid}.json"), evidence)
        print(f"{pid} {tier}: {total_ok}/{total_ob} rule instances hold, "
              f"{len(violations)} violation(s), {len(known_hits)} known finding(s), {wall:.2f}s")
        if exit_code == 0 and selftest_code != 0:
            return selftest_code
        return exit_code
    except AnalysisError as exc:
        print(f"ANALYSIS-ERROR property={pid} {exc}")
        return 2
    except Exception:  # noqa: BLE001 - a traceback must never look like a violation
        print(f"ANALYSIS-ERROR property={pid} internal error")
        traceback.print_exc()
        return 2


def _entry_chain(ctx: Ctx, roots, finding: Finding):
    try:
        chain = ctx.callers_path(roots, finding.fq)
        return chain or []
    except Exception:  # noqa: BLE001
        return []
