"""Analysis context shared by all rules: repo, resolver, registries, call graph, paths."""
from __future__ import annotations

import ast
from typing import Dict, List, Optional, Set, Tuple

from . import AnalysisError
from .paths import Interp, Step, is_S
from .repo import Module, Repo
from .resolve import Resolver, registrations

# numpoly callables that always return an ndpoly / tuple (never None)
NON_NONE_NUMPOLY = {
    "numpoly.baseclass.ndpoly",
    "numpoly.construct.polynomial.polynomial",
    "numpoly.construct.aspolynomial.aspolynomial",
    "numpoly.construct.clean.clean_attributes",
    "numpoly.construct.from_attributes.polynomial_from_attributes",
    "numpoly.baseclass.ndpoly.from_attributes",
    "numpoly.align.align_polynomials",
    "numpoly.align.align_exponents",
    "numpoly.align.align_indeterminants",
    "numpoly.align.align_shape",
}
ALIGN_FUNCS = {
    "numpoly.align.align_polynomials": "exp",
    "numpoly.align.align_exponents": "exp",
    "numpoly.align.align_indeterminants": "names",
    "numpoly.align.align_shape": "shape",
}

BINOP_UFUNC = {
    ast.Add: "numpy.add", ast.Sub: "numpy.subtract", ast.Mult: "numpy.multiply",
    ast.Pow: "numpy.power", ast.MatMult: "numpy.matmul", ast.FloorDiv: "numpy.floor_divide",
}
BINOP_METHOD = {ast.Div: "__truediv__", ast.Mod: "__mod__"}


class Ctx:
    def __init__(self, repo: Optional[Repo] = None, deep: bool = False):
        self.deep = deep  # thorough tier: one more loop unrolling, larger path budgets
        self.repo = repo or Repo()
        self.res = Resolver(self.repo)
        self.regs = registrations(self.repo, self.res)
        self._paths: Dict[Tuple[int, int, bool], List[List[Step]]] = {}
        self._callgraph: Optional[Dict[str, Set[str]]] = None
        self.unresolved_calls = 0
        self.resolved_calls = 0

    # -- names --------------------------------------------------------------

    def fq(self, module: Module, func: ast.AST) -> str:
        return f"{module.name}.{getattr(func, '_qualname', getattr(func, 'name', '?'))}"

    def locals_of(self, func: ast.FunctionDef) -> Set[str]:
        names: Set[str] = set()
        args = func.args
        for arg in args.posonlyargs + args.args + args.kwonlyargs:
            names.add(arg.arg)
        if args.vararg:
            names.add(args.vararg.arg)
        if args.kwarg:
            names.add(args.kwarg.arg)
        for node in ast.walk(func):
            if isinstance(node, ast.Name) and isinstance(node.ctx, (ast.Store, ast.Del)):
                names.add(node.id)
            elif isinstance(node, (ast.FunctionDef, ast.ClassDef)) and node is not func:
                names.add(node.name)
        return names

    def dotted(self, module: Module, expr: ast.AST, local_names=()) -> Optional[str]:
        return self.res.dotted(module, expr, local_names)

    def callee(self, module: Module, call: ast.Call, local_names=()) -> Optional[str]:
        return self.res.dotted(module, call.func, local_names)

    def function_node(self, dotted: str):
        """(module, FunctionDef) for a canonical dotted function name, else None."""
        binding = self.res.lookup(dotted)
        if binding.kind == "def":
            return binding.module, binding.node
        return None

    def ndpoly_method(self, name: str):
        binding = self.res.lookup(f"numpoly.baseclass.ndpoly.{name}")
        if binding.kind == "def":
            return binding.module, binding.node
        return None

    # -- pruning helper -----------------------------------------------------

    def non_none_for(self, module: Module, local_names=()):
        def non_none(expr: ast.expr) -> bool:
            if isinstance(expr, ast.Subscript):
                inner = expr.value
                if isinstance(inner, ast.Call) and not is_S(inner):
                    name = self.res.dotted(module, inner.func, local_names)
                    return name in ALIGN_FUNCS
                return False
            if isinstance(expr, ast.Call) and not is_S(expr):
                name = self.res.dotted(module, expr.func, local_names)
                if name is None:
                    return False
                if name in NON_NONE_NUMPOLY:
                    return True
                if name.startswith("numpy.") and name.split(".")[-1] in NUMPY_NON_NONE:
                    return True
            if isinstance(expr, (ast.Name, ast.Attribute)) and not (isinstance(expr, ast.Name) and expr.id[:1] in "πΣ"):
                # a module-level table bound once to a container literal (REDUCE_MAPPINGS, ...), a def or a class
                binding = self.res.resolve_expr(module, expr, local_names)
                if binding.kind in ("def", "class", "module"):
                    return True
                if binding.kind == "assign" and not binding.alts:
                    value = getattr(binding.node, "value", None)
                    return isinstance(value, (ast.Dict, ast.List, ast.Tuple, ast.Set)) or (
                        isinstance(value, ast.Constant) and value.value is not None)
            return False

        return non_none

    # -- paths --------------------------------------------------------------

    def paths(self, module: Module, func: ast.FunctionDef, max_iter: int = 2,
              assert_paths: bool = False, prune: bool = True, max_paths: int = 40000) -> List[List[Step]]:
        if self.deep and max_iter == 1 and max_paths == 40000:
            # rules that ask for a single unrolling get two in the thorough tier (when affordable)
            try:
                return self.paths(module, func, max_iter=2, assert_paths=assert_paths, prune=prune, max_paths=6000)
            except AnalysisError:
                pass
        key = (id(func), max_iter, assert_paths, prune)
        if key not in self._paths:
            interp = Interp(
                max_iter=max_iter,
                assert_paths=assert_paths,
                prune=prune,
                non_none=self.non_none_for(module, ()),
                max_paths=max_paths,
            )
            try:
                self._paths[key] = interp.run(func, outer_vars=self.alias_vars(module))
            except AnalysisError as exc:
                self._paths[key] = exc
        if isinstance(self._paths[key], Exception):
            raise self._paths[key]
        return self._paths[key]

    def paths_auto(self, module: Module, func: ast.FunctionDef, budget: int = 1500) -> List[List[Step]]:
        """Loops unrolled twice when that stays within ``budget`` paths, else once."""
        from .paths import TooManyPaths

        if self.deep:
            try:
                return self.paths(module, func, max_iter=3, max_paths=4 * budget)
            except TooManyPaths:
                pass
        try:
            return self.paths(module, func, max_iter=2, max_paths=(6 if self.deep else 1) * budget)
        except TooManyPaths:
            return self.paths(module, func, max_iter=1)

    def alias_vars(self, module: Module):
        """{'np': Name('numpy')}: module aliases are canonicalised in provenance expressions."""
        cache = self.__dict__.setdefault("_alias_cache", {})
        if module.name not in cache:
            out = {}
            for name, binding in self.res.namespace(module.name).items():
                if binding.kind == "module" and binding.target in ("numpy", "numpoly") and name != binding.target:
                    out[name] = ast.Name(id=binding.target, ctx=ast.Load())
            cache[module.name] = out
        return cache[module.name]

    # -- call graph ---------------------------------------------------------

    def ufunc_impl(self, numpy_name: str) -> Optional[str]:
        for reg in self.regs:
            if numpy_name in reg.targets and reg.kind in ("implements", "implements_ufunc"):
                return self.fq(reg.module, reg.func)
        return None

    def callgraph(self) -> Dict[str, Set[str]]:
        if self._callgraph is not None:
            return self._callgraph
        graph: Dict[str, Set[str]] = {}
        methods = {}
        ndpoly = self.res.lookup("numpoly.baseclass.ndpoly")
        if ndpoly.kind == "class":
            for stmt in ndpoly.node.body:
                if isinstance(stmt, ast.FunctionDef):
                    methods[stmt.name] = f"numpoly.baseclass.ndpoly.{stmt.name}"
        for module, qual, func in self.repo.all_functions():
            name = f"{module.name}.{qual}"
            edges = graph.setdefault(name, set())
            local_names = self.locals_of(func)
            for node in ast.walk(func):
                if isinstance(node, ast.Call):
                    callee = self.res.dotted(module, node.func, local_names)
                    if callee and callee.startswith("numpoly."):
                        edges.add(callee)
                        self.resolved_calls += 1
                    elif callee:
                        self.resolved_calls += 1
                    elif isinstance(node.func, ast.Attribute) and node.func.attr in methods:
                        edges.add(methods[node.func.attr])
                        self.resolved_calls += 1
                    else:
                        if (
                            isinstance(node.func, ast.Name)
                            and f"{qual}.{node.func.id}" in module.functions
                        ):
                            edges.add(f"{name}.{node.func.id}")
                            self.resolved_calls += 1
                            continue
                        self.unresolved_calls += 1
                elif isinstance(node, ast.BinOp):
                    target = BINOP_UFUNC.get(type(node.op))
                    if target:
                        impl = self.ufunc_impl(target)
                        if impl:
                            edges.add(impl)
                elif isinstance(node, ast.UnaryOp) and isinstance(node.op, ast.USub):
                    impl = self.ufunc_impl("numpy.negative")
                    if impl:
                        edges.add(impl)
                elif isinstance(node, ast.Subscript) and isinstance(node.ctx, ast.Load):
                    pass
            # property reads commonly used on polynomials
            for node in ast.walk(func):
                if isinstance(node, ast.Attribute) and node.attr in (
                    "coefficients", "exponents", "indeterminants", "values"
                ):
                    edges.add(f"numpoly.baseclass.ndpoly.{node.attr}")
        # canonicalise aliases (numpoly.reshape -> numpoly.array_function.reshape.reshape)
        canon: Dict[str, Set[str]] = {}
        for name, edges in graph.items():
            out = set()
            for edge in edges:
                binding = self.res.lookup(edge)
                resolved = self.res.binding_name(binding) if binding.kind in ("def", "class") else edge
                out.add(resolved or edge)
            canon[name] = out
        self._callgraph = canon
        return canon

    def reachable(self, roots) -> Set[str]:
        graph = self.callgraph()
        seen: Set[str] = set()
        todo = list(roots)
        while todo:
            cur = todo.pop()
            if cur in seen:
                continue
            seen.add(cur)
            for nxt in graph.get(cur, ()):
                if nxt not in seen:
                    todo.append(nxt)
                # a class reference reaches its __new__
                if nxt == "numpoly.baseclass.ndpoly":
                    todo.append("numpoly.baseclass.ndpoly.__new__")
        return seen

    def functions_in_files(self, relpaths) -> List[str]:
        out = []
        for rel in relpaths:
            module = self.repo.by_relpath.get(rel)
            if module is None:
                continue
            for qual in module.functions:
                out.append(f"{module.name}.{qual}")
        return out

    def callers_path(self, roots, target: str) -> Optional[List[str]]:
        """Shortest call chain from any root to ``target``."""
        graph = self.callgraph()
        from collections import deque

        queue = deque((r, [r]) for r in roots)
        seen = set(roots)
        while queue:
            cur, chain = queue.popleft()
            if cur == target:
                return chain
            for nxt in sorted(graph.get(cur, ())):
                if nxt not in seen:
                    seen.add(nxt)
                    queue.append((nxt, chain + [nxt]))
        return None


NUMPY_NON_NONE = {
    "array", "asarray", "zeros", "ones", "empty", "full", "zeros_like", "ones_like", "arange",
    "unique", "vstack", "hstack", "concatenate", "stack", "tile", "repeat", "where", "any", "all",
    "sum", "prod", "reshape", "transpose", "broadcast_shapes", "result_type", "common_type",
    "dtype", "diff", "eye", "lexsort", "argsort", "atleast_1d", "atleast_2d", "atleast_3d",
    "add", "subtract", "multiply", "greater", "less", "greater_equal", "less_equal", "equal",
    "not_equal", "isclose", "floor_divide", "true_divide", "negative",
}
