"""E7 - platform facts: the numpy installed next to the repository.

numpy is imported (never numpoly) and only its metadata is read: call
signatures, which public names are ufuncs, and which ufunc a reduction
function is defined by (read statically from numpy/_core/fromnumeric.py).
"""
from __future__ import annotations

import ast
import inspect
import os
from typing import Any, Dict, List, Optional, Tuple

import numpy

from . import AnalysisError

VERSION = numpy.__version__


def get_object(dotted: str) -> Any:
    parts = dotted.split(".")
    if parts[0] != "numpy":
        raise KeyError(dotted)
    obj: Any = numpy
    for idx, part in enumerate(parts[1:], 1):
        try:
            obj = getattr(obj, part)
        except AttributeError:
            import importlib

            try:
                obj = importlib.import_module(".".join(parts[: idx + 1]))
            except ImportError:
                raise AttributeError(dotted) from None
    return obj


def exists(dotted: str) -> bool:
    try:
        get_object(dotted)
        return True
    except (AttributeError, KeyError):
        return False


def is_ufunc(dotted: str) -> bool:
    try:
        return isinstance(get_object(dotted), numpy.ufunc)
    except (AttributeError, KeyError):
        return False


def same_object(a: str, b: str) -> bool:
    try:
        return get_object(a) is get_object(b)
    except (AttributeError, KeyError):
        return False


def signature(dotted: str) -> Optional[inspect.Signature]:
    try:
        obj = get_object(dotted)
    except (AttributeError, KeyError):
        return None
    try:
        return inspect.signature(obj)
    except (TypeError, ValueError):
        return None


def bind_problem(dotted: str, call: ast.Call) -> Optional[str]:
    """Return a message if ``call`` cannot bind against numpy's signature, else None.

    ``**kwargs`` forwards are not checked; ``*args`` disables the positional count.
    """
    sig = signature(dotted)
    if sig is None:
        return None
    params = sig.parameters
    has_varkw = any(p.kind == p.VAR_KEYWORD for p in params.values())
    has_varpos = any(p.kind == p.VAR_POSITIONAL for p in params.values())
    star_args = any(isinstance(a, ast.Starred) for a in call.args)
    npos = len(call.args)
    positional = [p for p in params.values() if p.kind in (p.POSITIONAL_ONLY, p.POSITIONAL_OR_KEYWORD)]
    if not star_args and not has_varpos and npos > len(positional):
        return f"{npos} positional arguments, {dotted}{sig} accepts {len(positional)}"
    star_kwargs = any(k.arg is None for k in call.keywords)
    given = set()
    for kw in call.keywords:
        if kw.arg is None:
            continue
        given.add(kw.arg)
        param = params.get(kw.arg)
        if param is None:
            if not has_varkw:
                return f"unexpected keyword '{kw.arg}' for {dotted}{sig}"
        elif param.kind == param.POSITIONAL_ONLY:
            return f"positional-only parameter '{kw.arg}' passed by keyword to {dotted}{sig}"
    if not star_args:
        for idx, param in enumerate(positional[:npos]):
            if param.name in given:
                return f"multiple values for '{param.name}' in call of {dotted}{sig}"
    if not star_args and not star_kwargs:
        for idx, param in enumerate(positional):
            if idx >= npos and param.default is param.empty and param.name not in given:
                return f"missing required argument '{param.name}' for {dotted}{sig}"
        for param in params.values():
            if param.kind == param.KEYWORD_ONLY and param.default is param.empty and param.name not in given:
                return f"missing required keyword '{param.name}' for {dotted}{sig}"
    return None


# reduction function -> ufunc it reduces with (frozen reference, cross-checked below)
REDUCTIONS_FROZEN = {
    "sum": "add", "prod": "multiply", "all": "logical_and", "any": "logical_or",
    "amax": "maximum", "max": "maximum", "amin": "minimum", "min": "minimum",
}
ACCUMULATIONS_FROZEN = {"cumsum": "add", "cumprod": "multiply"}


def reductions_from_source() -> Dict[str, str]:
    """Read ``def f(...): return _wrapreduction*(a, np.<ufunc>, ...)`` from numpy."""
    path = os.path.join(os.path.dirname(numpy.__file__), "_core", "fromnumeric.py")
    if not os.path.exists(path):
        path = os.path.join(os.path.dirname(numpy.__file__), "core", "fromnumeric.py")
    with open(path, encoding="utf-8") as handle:
        tree = ast.parse(handle.read())
    found: Dict[str, str] = {}
    for node in tree.body:
        if not isinstance(node, ast.FunctionDef):
            continue
        for sub in ast.walk(node):
            if (
                isinstance(sub, ast.Call)
                and isinstance(sub.func, ast.Name)
                and sub.func.id.startswith("_wrapreduction")
                and len(sub.args) >= 2
                and isinstance(sub.args[1], ast.Attribute)
            ):
                found[node.name] = sub.args[1].attr
    return found


def check_reduction_table() -> Dict[str, str]:
    source = reductions_from_source()
    for name, ufunc in REDUCTIONS_FROZEN.items():
        if name in source and source[name] != ufunc:
            raise AnalysisError(
                f"numpy's fromnumeric.{name} reduces with {source[name]}, frozen table says {ufunc}"
            )
    missing = [n for n in ("sum", "prod", "all", "any") if n not in source]
    if missing:
        raise AnalysisError(f"could not read reductions {missing} from numpy source")
    return source
