"""Generic one-edit mutants of the current source and their evaluation with a property's rules (a measurement of
what the rules constrain - never a verdict).  Used by tools/mutant_sweep.py (full sweeps) and by the thorough tier
(a seeded sample per property, reported in the evidence)."""
from __future__ import annotations

import ast
import json
import os
import random
import time
from concurrent.futures import ProcessPoolExecutor

from .. import AnalysisError
from ..repo import REPO_ROOT, Repo

NONCOMM = (ast.Sub, ast.Div, ast.FloorDiv, ast.Mod, ast.Pow, ast.MatMult, ast.LShift, ast.RShift)
CMP_FLIP = {ast.Lt: ast.LtE, ast.LtE: ast.Lt, ast.Gt: ast.GtE, ast.GtE: ast.Gt, ast.Eq: ast.NotEq,
            ast.NotEq: ast.Eq, ast.Is: ast.IsNot, ast.IsNot: ast.Is, ast.In: ast.NotIn, ast.NotIn: ast.In}


def _segment(src_lines, node):
    """(start offset, end offset) of node in the source text."""
    def off(line, col):
        return sum(len(l) for l in src_lines[: line - 1]) + len(src_lines[line - 1].encode("utf-8")[:col].decode("utf-8"))
    return off(node.lineno, node.col_offset), off(node.end_lineno, node.end_col_offset)


def _is_docstring(stmt, parent):
    body = getattr(parent, "body", None)
    return (isinstance(stmt, ast.Expr) and isinstance(stmt.value, ast.Constant) and isinstance(stmt.value.value, str)
            and body and body[0] is stmt)


def mutants_of(relpath, src):
    """Yield (op, function, lineno, start, end, replacement text, description)."""
    try:
        tree = ast.parse(src)
    except SyntaxError:
        return
    lines = src.splitlines(keepends=True)
    out = []

    def emit(op, func, node, new_node_or_text, desc):
        start, end = _segment(lines, node)
        text = new_node_or_text if isinstance(new_node_or_text, str) else ast.unparse(new_node_or_text)
        old = src[start:end]
        if text.strip() == old.strip():
            return
        out.append((op, func, node.lineno, start, end, text, desc))

    def clone(node):
        return ast.parse(ast.unparse(node), mode="eval").body if isinstance(node, ast.expr) else None

    for func in [n for n in ast.walk(tree) if isinstance(n, (ast.FunctionDef, ast.AsyncFunctionDef))]:
        fname = func.name
        params = [a.arg for a in func.args.posonlyargs + func.args.args]
        # nodes belonging to this function but not to nested functions are handled at the nested level too;
        # duplicates are removed at the end by (start, end, text)
        for parent in ast.walk(func):
            # ---- statements
            for field in ("body", "orelse", "finalbody"):
                block = getattr(parent, field, None)
                if not isinstance(block, list):
                    continue
                for stmt in block:
                    if not isinstance(stmt, ast.stmt):
                        continue
                    if isinstance(stmt, (ast.Assign, ast.AugAssign, ast.Expr)) and not _is_docstring(stmt, parent):
                        if isinstance(stmt, ast.Assign) and len(block) > 1:
                            # deleting a plain definition mostly gives NameError; keep re-definitions only
                            names = {t.id for t in stmt.targets if isinstance(t, ast.Name)}
                            earlier = any(isinstance(n, ast.Name) and isinstance(n.ctx, ast.Store) and n.id in names
                                          and (n.lineno, n.col_offset) < (stmt.lineno, stmt.col_offset)
                                          for n in ast.walk(func)) or bool(names & set(params))
                            if names and not earlier:
                                continue
                        emit("STMTDEL", fname, stmt, "pass", f"delete `{ast.unparse(stmt)[:70]}`")
                    if isinstance(stmt, (ast.If, ast.While)):
                        emit("NEGIF", fname, stmt.test, ast.UnaryOp(op=ast.Not(), operand=stmt.test),
                             f"negate `{ast.unparse(stmt.test)[:70]}`")
                    if isinstance(stmt, ast.For):
                        it = stmt.iter
                        emit("FORSKIP", fname, it, f"list({ast.unparse(it)})[1:]", f"loop skips first of `{ast.unparse(it)[:60]}`")
            if isinstance(parent, ast.IfExp):
                emit("NEGIF", fname, parent.test, ast.UnaryOp(op=ast.Not(), operand=parent.test),
                     f"negate `{ast.unparse(parent.test)[:70]}`")
            # ---- expressions
            if isinstance(parent, ast.Call):
                for idx, kw in enumerate(parent.keywords):
                    if kw.arg is None:
                        continue
                    new = clone(parent)
                    del new.keywords[idx]
                    emit("KWDROP", fname, parent, new, f"drop {kw.arg}= from `{ast.unparse(parent.func)}(...)`")
                    if isinstance(kw.value, ast.Constant) and isinstance(kw.value.value, bool):
                        new = clone(parent)
                        new.keywords[idx].value = ast.Constant(value=not kw.value.value)
                        emit("CONST", fname, parent, new, f"{kw.arg}={kw.value.value} -> {not kw.value.value}")
                plain = [a for a in parent.args if not isinstance(a, ast.Starred)]
                if len(parent.args) >= 2 and len(plain) == len(parent.args) and \
                        ast.unparse(parent.args[0]) != ast.unparse(parent.args[1]):
                    new = clone(parent)
                    new.args[0], new.args[1] = new.args[1], new.args[0]
                    emit("ARGSWAP", fname, parent, new, f"swap first two arguments of `{ast.unparse(parent.func)}(...)`")
                for idx, kw in enumerate(parent.keywords):
                    for jdx, kw2 in enumerate(parent.keywords):
                        if idx < jdx and kw.arg and kw2.arg and isinstance(kw.value, ast.Name) and isinstance(kw2.value, ast.Name) \
                                and kw.value.id != kw2.value.id:
                            new = clone(parent)
                            new.keywords[idx].value, new.keywords[jdx].value = new.keywords[jdx].value, new.keywords[idx].value
                            emit("KWCROSS", fname, parent, new, f"cross-wire {kw.arg}= and {kw2.arg}=")
            if isinstance(parent, ast.BinOp) and isinstance(parent.op, NONCOMM):
                new = clone(parent)
                new.left, new.right = new.right, new.left
                emit("BINSWAP", fname, parent, new, f"swap operands of `{ast.unparse(parent)[:60]}`")
            if isinstance(parent, ast.Compare) and len(parent.ops) == 1:
                op = type(parent.ops[0])
                if op in CMP_FLIP:
                    new = clone(parent)
                    new.ops = [CMP_FLIP[op]()]
                    emit("CMPOP", fname, parent, new, f"`{ast.unparse(parent)[:60]}` -> {CMP_FLIP[op].__name__}")
                if op in (ast.Lt, ast.LtE, ast.Gt, ast.GtE):
                    new = clone(parent)
                    new.left, new.comparators[0] = new.comparators[0], new.left
                    emit("BINSWAP", fname, parent, new, f"swap sides of `{ast.unparse(parent)[:60]}`")
            if isinstance(parent, ast.Subscript):
                sl = parent.slice
                slices = [sl] if isinstance(sl, ast.Slice) else [e for e in getattr(sl, "elts", []) if isinstance(e, ast.Slice)]
                for s in slices:
                    for bound in ("lower", "upper"):
                        val = getattr(s, bound)
                        if val is not None:
                            new = clone(parent)
                            ns = new.slice if isinstance(new.slice, ast.Slice) else \
                                [e for e in new.slice.elts if isinstance(e, ast.Slice)][slices.index(s)]
                            setattr(ns, bound, None)
                            emit("SLICE", fname, parent, new, f"drop {bound} bound of `{ast.unparse(parent)[:60]}`")
                if isinstance(sl, ast.Constant) and isinstance(sl.value, int) and not isinstance(sl.value, bool) and sl.value in (0, 1, -1):
                    new = clone(parent)
                    new.slice = ast.Constant(value={0: 1, 1: 0, -1: 0}[sl.value])
                    emit("CONST", fname, parent, new, f"index {sl.value} -> {new.slice.value} in `{ast.unparse(parent)[:60]}`")
            if isinstance(parent, ast.Call):
                for idx, kw in enumerate(parent.keywords):
                    if kw.arg in ("axis", "k", "offset", "n") and isinstance(kw.value, ast.Constant) and kw.value.value in (0, 1, -1):
                        new = clone(parent)
                        new.keywords[idx].value = ast.Constant(value={0: 1, 1: 0, -1: 0}[kw.value.value])
                        emit("CONST", fname, parent, new, f"{kw.arg}={kw.value.value} -> {new.keywords[idx].value.value}")
            if isinstance(parent, ast.BoolOp):
                new = clone(parent)
                new.op = ast.Or() if isinstance(parent.op, ast.And) else ast.And()
                emit("BOOLOP", fname, parent, new, f"and<->or in `{ast.unparse(parent)[:60]}`")
        # ---- parameter confusion: first two parameters (skipping self)
        real = [p for p in params if p not in ("self", "cls")]
        if len(real) >= 2:
            a, b = real[0], real[1]
            for node in ast.walk(func):
                if isinstance(node, ast.Name) and isinstance(node.ctx, ast.Load) and node.id in (a, b):
                    emit("PARAMSWAP", fname, node, b if node.id == a else a, f"use {b if node.id == a else a} instead of {node.id}")
    seen = set()
    for item in out:
        key = (item[3], item[4], item[5])
        if key not in seen:
            seen.add(key)
            yield item


def evaluate(ctx, pids, props):
    """Findings (violations + known) per property, with the filters of sa.engine.run_property."""
    from ..engine import scope_of
    from ..plan import PLAN, RULES

    per = {}
    for pid in pids:
        spec = PLAN[pid]
        try:
            roots, scope = scope_of(ctx, props[pid])
            keys = {}
            for use in spec["uses"]:
                result = RULES[use.rule](ctx)
                findings = result.findings
                if use.scoped:
                    findings = [f for f in findings if f.fq in scope or f.fq.rsplit(".", 1)[0] in scope]
                if use.only is not None:
                    findings = [f for f in findings if use.only(f)]
                if len(result.obligations) < max(1, result.floor // 2):
                    raise AnalysisError(f"vacuity guard {result.rule}")
                for f in findings:
                    keys[tuple(sorted(f.key.items()))] = result.rule
            per[pid] = ("ok", keys)
        except AnalysisError as exc:
            per[pid] = ("error", str(exc)[:200])
        except RecursionError:
            per[pid] = ("error", "RecursionError")
        except Exception as exc:  # noqa: BLE001
            per[pid] = ("error", f"{type(exc).__name__}: {exc}"[:200])
    return per


_BASE = {}


def _work(job):
    from ..ctx import Ctx
    from ..engine import load_properties

    relpath, src, mut, pids = job
    props = load_properties()
    op, func, lineno, start, end, text, desc = mut
    new_src = src[:start] + text + src[end:]
    try:
        compile(new_src, relpath, "exec")
    except SyntaxError:
        return None
    base_key = tuple(pids)
    if base_key not in _BASE:
        _BASE[base_key] = evaluate(Ctx(Repo()), pids, props)
    base = _BASE[base_key]
    try:
        ctx = Ctx(Repo(overrides={relpath: new_src}))
        res = evaluate(ctx, pids, props)
    except AnalysisError as exc:
        res = {pid: ("error", str(exc)[:200]) for pid in pids}
    except Exception as exc:  # noqa: BLE001
        res = {pid: ("error", f"{type(exc).__name__}: {exc}"[:200]) for pid in pids}
    record = {"file": relpath, "function": func, "line": lineno, "op": op, "desc": desc,
              "old": src[start:end][:160], "new": text[:160], "start": start, "end": end, "verdict": {}}
    for pid in pids:
        status, payload = res[pid]
        if status == "error":
            record["verdict"][pid] = {"status": "error", "detail": payload}
            continue
        bstatus, bkeys = base[pid]
        new = sorted({rule for key, rule in payload.items() if bstatus != "ok" or key not in bkeys})
        record["verdict"][pid] = {"status": "killed" if new else "survived", "rules": new}
    return record




def anchor_files(props, pids):
    by_file = {}
    for pid in pids:
        for entry in props[pid]["anchors"]["files"]:
            if "(all modules)" in entry:
                prefix = entry.split(" ")[0]
                for dirpath, _, names in os.walk(os.path.join(REPO_ROOT, prefix)):
                    for n in sorted(names):
                        if n.endswith(".py") and n != "__init__.py":
                            by_file.setdefault(os.path.relpath(os.path.join(dirpath, n), REPO_ROOT), []).append(pid)
            elif entry.endswith(".py") and entry.startswith("numpoly/"):
                by_file.setdefault(entry, []).append(pid)
    return by_file


def sample_sweep(pid: str, seed: int, size: int = 48, jobs: int = 16):
    """Evaluate a seeded sample of generic mutants of the property's anchor files with the property's rules."""
    from ..engine import load_properties

    started = time.time()
    props = load_properties()
    by_file = anchor_files(props, [pid])
    jobs_list = []
    for relpath in sorted(by_file):
        path = os.path.join(REPO_ROOT, relpath)
        if not os.path.exists(path):
            continue
        src = open(path, encoding="utf-8").read()
        for mut in mutants_of(relpath, src):
            jobs_list.append((relpath, src, mut, (pid,)))
    total = len(jobs_list)
    rng = random.Random(f"{pid}-{seed}")
    rng.shuffle(jobs_list)
    sample = jobs_list[:size]
    out = {"generated": total, "sampled": len(sample), "reported": 0, "engine_gave_up": 0, "silent": 0,
           "by_operator": {}, "reported_samples": [], "silent_samples": []}
    if not sample:
        return out
    with ProcessPoolExecutor(max_workers=min(jobs, len(sample))) as pool:
        records = [r for r in pool.map(_work, sample, chunksize=2) if r is not None]
    out["sampled"] = len(records)
    for rec in records:
        verdict = rec["verdict"][pid]
        status = {"killed": "reported", "error": "engine_gave_up", "survived": "silent"}[verdict["status"]]
        out[status] += 1
        op = out["by_operator"].setdefault(rec["op"], {"reported": 0, "engine_gave_up": 0, "silent": 0})
        op[status] += 1
        line = f"{rec['file']}:{rec['line']} {rec['function']} [{rec['op']}] {rec['desc']}"[:160]
        if status == "reported" and len(out["reported_samples"]) < 6:
            out["reported_samples"].append(line + " -> " + ",".join(verdict.get("rules", [])))
        if status == "silent" and len(out["silent_samples"]) < 10:
            out["silent_samples"].append(line)
    out["wall_s"] = round(time.time() - started, 1)
    out["note"] = ("generic one-edit mutants (dropped keyword, swapped arguments/operands, negated condition, changed comparison, "
                   "slice bound, 0/1 constant, deleted statement, confused parameters) of the anchor files, held in memory and analysed "
                   "with this property's rules; 'silent' mutants are not known to break the property (many are equivalent or are "
                   "killed by the test-suite) - the figure measures how much of the anchor code the structural clauses constrain")
    return out
