"""Self-validation of the checker (DESIGN.md section 6).

Seeded mutants are textual edits of the *current* source held in memory (the
repository is never modified, nothing is executed): each must be reported by
the rule it targets.  Benign variants must produce no finding.  A rule that
misses its mutant or fires on a benign variant makes the thorough run exit 2
(ANALYSIS-ERROR: checker self-validation) - distinct from a property violation.
"""
from __future__ import annotations

import os
import random
import time
from concurrent.futures import ProcessPoolExecutor
from typing import Dict, List, Optional, Tuple

from .. import AnalysisError
from ..repo import REPO_ROOT, Repo
from .corpus import BENIGN, MUTANTS


def _apply(edits) -> Optional[Dict[str, str]]:
    overrides: Dict[str, str] = {}
    for edit in edits:
        relpath, old, new = edit[0], edit[1], edit[2]
        everywhere = len(edit) > 3 and edit[3] == "all"
        path = os.path.join(REPO_ROOT, relpath)
        if relpath in overrides:
            src = overrides[relpath]
        else:
            try:
                with open(path, encoding="utf-8") as handle:
                    src = handle.read()
            except OSError:
                return None
        if old not in src:
            return None
        overrides[relpath] = src.replace(old, new) if everywhere else src.replace(old, new, 1)
    return overrides


def _run_case(case) -> Tuple[str, str, str]:
    """Returns (id, status, detail); status in ok / missed / fired / skipped / error."""
    from ..ctx import Ctx
    from ..plan import RULES

    ident, rule, edits, benign = case
    overrides = _apply(edits)
    if overrides is None:
        return ident, "skipped", "anchor text not present in the current source"
    try:
        ctx = Ctx(Repo(overrides=overrides))
        result = RULES[rule](ctx)
    except AnalysisError as exc:
        if benign:
            return ident, "error", f"benign variant made the engine give up: {exc}"
        return ident, "error", f"mutant made the engine give up instead of reporting: {exc}"
    except Exception as exc:  # noqa: BLE001
        return ident, "error", f"{type(exc).__name__}: {exc}"
    files = {edit[0] for edit in edits}
    hits = [f for f in result.findings if f.relpath in files] or ([] if benign else [])
    if benign:
        # compare with the unmutated tree: a benign variant must not add findings
        base = RULES[rule](Ctx(Repo()))
        base_keys = {tuple(sorted(f.key.items())) for f in base.findings}
        new = [f for f in result.findings if tuple(sorted(f.key.items())) not in base_keys]
        if new:
            return ident, "fired", str(new[0])
        return ident, "ok", ""
    base = RULES[rule](Ctx(Repo()))
    base_keys = {tuple(sorted(f.key.items())) for f in base.findings}
    new = [f for f in result.findings if tuple(sorted(f.key.items())) not in base_keys]
    if new:
        return ident, "ok", str(new[0])[:200]
    return ident, "missed", ""


def run_selftest(property_id: str, seed: int = 0, rules: Optional[List[str]] = None, quiet: bool = False):
    """Returns (exit_code, summary)."""
    from ..plan import PLAN

    started = time.time()
    if rules is None:
        rules = sorted({u.rule for u in PLAN[property_id]["uses"]})
    cases = [(m[0], m[1], m[2], False) for m in MUTANTS if m[1] in rules]
    cases += [(b[0], b[1], b[2], True) for b in BENIGN if b[1] in rules]
    random.Random(seed).shuffle(cases)
    summary = {"rules": rules, "cases": len(cases), "mutants": sum(1 for c in cases if not c[3]),
               "benign": sum(1 for c in cases if c[3]), "ok": 0, "skipped": [], "failed": [], "samples": []}
    if not cases:
        return 0, summary
    with ProcessPoolExecutor(max_workers=min(16, len(cases))) as pool:
        results = list(pool.map(_run_case, cases))
    kinds = {c[0]: ("benign" if c[3] else "mutant") for c in cases}
    for ident, status, detail in sorted(results):
        if status == "ok":
            summary["ok"] += 1
            if kinds[ident] == "mutant" and len(summary["samples"]) < 6:
                summary["samples"].append({"mutant": ident, "reported_as": detail})
        elif status == "skipped":
            summary["skipped"].append(ident)
        else:
            summary["failed"].append({"case": ident, "status": status, "detail": detail})
        if status != "ok" and not quiet:
            print(f"  selftest {ident}: {status} {detail}")
    summary["wall_s"] = round(time.time() - started, 1)
    if not quiet:
        print(f"{property_id} thorough: self-validation {summary['ok']} ok, {len(summary['skipped'])} skipped, "
              f"{len(summary['failed'])} failed of {len(results)} cases ({summary['wall_s']}s)")
    if summary["failed"]:
        print(f"ANALYSIS-ERROR property={property_id} checker self-validation failed")
        return 2, summary
    return 0, summary
