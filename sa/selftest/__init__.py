"""Self-validation of the checker (DESIGN.md section 6).

Seeded mutants are textual edits of the *current* source held in memory (the
repository is never modified, nothing is executed): each must be reported by
the rule it targets.  Benign variants must produce no finding.  A rule that
misses its mutant or fires on a benign variant makes the thorough run exit 2
(ANALYSIS-ERROR: checker self-validation) - distinct from a property violation.
"""
from __future__ import annotations

import os
import random
import time
from concurrent.futures import ProcessPoolExecutor
from typing import Dict, List, Optional, Tuple

from .. import AnalysisError
from ..repo import REPO_ROOT, Repo
from .corpus import BENIGN, MUTANTS


def _apply(edits) -> Optional[Dict[str, str]]:
    overrides: Dict[str, str] = {}
    for relpath, old, new in edits:
        path = os.path.join(REPO_ROOT, relpath)
        if relpath in overrides:
            src = overrides[relpath]
        else:
            try:
                with open(path, encoding="utf-8") as handle:
                    src = handle.read()
            except OSError:
                return None
        if old not in src:
            return None
        overrides[relpath] = src.replace(old, new, 1)
    return overrides


def _run_case(case) -> Tuple[str, str, str]:
    """Returns (id, status, detail); status in ok / missed / fired / skipped / error."""
    from ..ctx import Ctx
    from ..plan import RULES

    ident, rule, edits, benign = case
    overrides = _apply(edits)
    if overrides is None:
        return ident, "skipped", "anchor text not present in the current source"
    try:
        ctx = Ctx(Repo(overrides=overrides))
        result = RULES[rule](ctx)
    except AnalysisError as exc:
        if benign:
            return ident, "error", f"benign variant made the engine give up: {exc}"
        return ident, "error", f"mutant made the engine give up instead of reporting: {exc}"
    except Exception as exc:  # noqa: BLE001
        return ident, "error", f"{type(exc).__name__}: {exc}"
    files = {rel for rel, _, _ in edits}
    hits = [f for f in result.findings if f.relpath in files] or ([] if benign else [])
    if benign:
        # compare with the unmutated tree: a benign variant must not add findings
        base = RULES[rule](Ctx(Repo()))
        base_keys = {tuple(sorted(f.key.items())) for f in base.findings}
        new = [f for f in result.findings if tuple(sorted(f.key.items())) not in base_keys]
        if new:
            return ident, "fired", str(new[0])
        return ident, "ok", ""
    base = RULES[rule](Ctx(Repo()))
    base_keys = {tuple(sorted(f.key.items())) for f in base.findings}
    new = [f for f in result.findings if tuple(sorted(f.key.items())) not in base_keys]
    if new:
        return ident, "ok", str(new[0])[:200]
    return ident, "missed", ""


def run_selftest(property_id: str, seed: int = 0, rules: Optional[List[str]] = None) -> int:
    from ..plan import PLAN

    started = time.time()
    if rules is None:
        rules = sorted({u.rule for u in PLAN[property_id]["uses"]})
    cases = [(m[0], m[1], m[2], False) for m in MUTANTS if m[1] in rules]
    cases += [(b[0], b[1], b[2], True) for b in BENIGN if b[1] in rules]
    random.Random(seed).shuffle(cases)
    if not cases:
        print(f"{property_id} thorough: no self-validation cases for rules {rules}")
        return 0
    with ProcessPoolExecutor(max_workers=min(16, len(cases))) as pool:
        results = list(pool.map(_run_case, cases))
    bad = [r for r in results if r[1] in ("missed", "fired", "error")]
    skipped = [r for r in results if r[1] == "skipped"]
    ok = [r for r in results if r[1] == "ok"]
    for ident, status, detail in sorted(results):
        if status != "ok":
            print(f"  selftest {ident}: {status} {detail}")
    print(f"{property_id} thorough: self-validation {len(ok)} ok, {len(skipped)} skipped, "
          f"{len(bad)} failed of {len(results)} cases ({time.time() - started:.1f}s)")
    if bad:
        print(f"ANALYSIS-ERROR property={property_id} checker self-validation failed")
        return 2
    return 0
