"""Mutant and benign corpus: (id, rule, [(relpath, old text, new text), ...])."""

AF = "numpoly/array_function/"

MUTANTS = [
    # ---- R-KEYS -------------------------------------------------------------
    ("keys-dispatch-skip-second", "R-KEYS", [("numpoly/dispatch.py", "for key in keys[1:]:", "for key in keys[2:]:")]),
    ("keys-dispatch-no-first", "R-KEYS", [("numpoly/dispatch.py", "    out_.values[keys[0]] = tmp\n", "")]),
    ("keys-dispatch-break", "R-KEYS", [("numpoly/dispatch.py",
        "        out_.values[key] = numpy_func(*[poly.values[key] for poly in inputs], **kwargs)\n",
        "        out_.values[key] = numpy_func(*[poly.values[key] for poly in inputs], **kwargs)\n        break\n")]),
    ("keys-truediv-no-zero", "R-KEYS", [(AF + "true_divide.py", "        out_[key] = 0\n", "")]),
    ("keys-floordiv-no-zero", "R-KEYS", [(AF + "floor_divide.py", "        out.values[key] = 0\n", "")]),
    ("keys-from-attributes-no-fill", "R-KEYS", [("numpoly/construct/from_attributes.py",
        "    else:\n        for key in poly.keys:\n            poly.values[key] = 0\n", "")]),
    ("keys-full-conditional", "R-KEYS", [(AF + "full.py",
        "    for key in fill_value.keys:\n        out.values[key] = fill_value.values[key]\n",
        "    for key in fill_value.keys:\n        if numpy.any(fill_value.values[key]):\n            out.values[key] = fill_value.values[key]\n")]),
    ("keys-monomial-slice", "R-KEYS", [("numpoly/construct/monomial.py",
        "zip(numpy.eye(len(indices), dtype=int), poly.keys)", "zip(numpy.eye(len(indices), dtype=int), poly.keys[1:])")]),
    ("keys-diff-late-alloc", "R-KEYS", [(AF + "diff.py", "        if out is None:\n            out = numpoly.ndpoly(",
        "        if out is None and key != a.keys[0]:\n            out = numpoly.ndpoly(")]),
    # ---- R-CAST -------------------------------------------------------------
    ("cast-dropped", "R-CAST", [("numpoly/construct/from_attributes.py",
        "        coefficients = [coeff.astype(poly.dtype) for coeff in coefficients]\n", "")]),
    ("cast-conditional", "R-CAST", [("numpoly/construct/from_attributes.py",
        "        coefficients = [coeff.astype(poly.dtype) for coeff in coefficients]\n",
        "        if coefficients[0].dtype != poly.dtype:\n            coefficients = [coeff.astype(poly.dtype) for coeff in coefficients]\n")]),
    ("cast-no-dtype-guard", "R-CAST", [("numpoly/construct/from_attributes.py",
        "        if poly.dtype in CVALUES_DTYPES:\n", "        if True:\n")]),
]

BENIGN = [
    ("benign-dispatch-rename", "R-KEYS", [("numpoly/dispatch.py", "out_", "result_")]),
]
