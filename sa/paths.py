"""E5/E6/E6b - path enumeration and symbolic provenance along a path.

Functions in this code base are tiny, so instead of merging dataflow facts at
joins every acyclic path (loops unrolled 0..max_iter times) is enumerated as a
linear sequence of steps by a small symbolic interpreter.  Along a linear path
reaching definitions are trivial, so every name can be expanded to a
*provenance expression* rooted at parameters (spelled ``πname``), calls and
constants.  Branches whose assumptions contradict what is already known on the
path (``out is None`` taken both ways, a constructor result assumed to be
``None``) are pruned while enumerating.

Provenance expressions are shared, immutable ``ast`` trees: nothing here or in
the rules mutates a node after it has been built.
"""
from __future__ import annotations

import ast
from typing import Callable, Dict, List, Optional, Tuple

from . import AnalysisError

PARAM = "π"  # parameter p is spelled πp in provenance expressions
SYN = "Σ"  # synthetic operators: Σelem(x, tag), Σindex, Σrest, Σenter, ...
MAX_PATHS = 40000


class TooManyPaths(AnalysisError):
    pass


class Step:
    """One event on a path together with the environment *before* it."""

    __slots__ = ("kind", "node", "data", "vars", "facts", "muts")

    def __init__(self, kind, node, data, state):
        self.kind = kind  # stmt assume iter loopexit return raise end with except def exception finally
        self.node = node
        self.data = data
        self.vars = state.vars
        self.facts = state.facts
        self.muts = state.muts

    def expand(self, expr: ast.AST) -> ast.AST:
        return expand(expr, self.vars)

    def fact(self, key: str):
        """Polarity of a recorded assumption (None if not recorded)."""
        entry = self.facts.get(key)
        return None if entry is None else entry[0]

    def fact_items(self):
        """(test node, polarity) of every assumption known before this step."""
        return [(node, pol) for pol, node in self.facts.values()]

    @property
    def orig(self):
        return getattr(self.node, "_orig", self.node)

    def __repr__(self):
        try:
            text = ast.unparse(self.node)[:70] if self.node is not None else ""
        except Exception:  # pragma: no cover
            text = "?"
        return f"<{self.kind} {self.data if self.data is not None else ''} {text}>"


class State:
    __slots__ = ("steps", "vars", "facts", "muts", "counter")

    def __init__(self, steps, vars_, facts, muts, counter):
        self.steps = steps  # cons list (prev, Step)
        self.vars = vars_
        self.facts = facts
        self.muts = muts
        self.counter = counter  # [int] shared fresh-tag counter

    def fork(self) -> "State":
        return State(self.steps, self.vars, self.facts, self.muts, self.counter)

    def push(self, kind, node, data=None) -> Step:
        step = Step(kind, node, data, self)
        self.steps = (self.steps, step)
        return step

    def path(self) -> List[Step]:
        out = []
        cur = self.steps
        while cur is not None:
            cur, step = cur
            out.append(step)
        out.reverse()
        return out

    def fresh(self) -> ast.Constant:
        self.counter[0] += 1
        return ast.Constant(self.counter[0])

    def set(self, name: str, value: ast.expr) -> None:
        self.vars = {**self.vars, name: value}
        if name in self.muts:
            self.muts = {k: v for k, v in self.muts.items() if k != name}

    def mutate(self, name: str, what) -> None:
        self.muts = {**self.muts, name: self.muts.get(name, ()) + (what,)}
        expanded = self.vars.get(name)
        needle = U(expanded) if expanded is not None else name
        if any(needle in key for key in self.facts):
            self.facts = {k: v for k, v in self.facts.items() if needle not in k}


# ---------------------------------------------------------------------------
# synthetic nodes


def S(name: str, *args: ast.expr) -> ast.Call:
    """Synthetic call node ``$name(args)`` used in provenance expressions."""
    return ast.Call(func=ast.Name(id=SYN + name, ctx=ast.Load()), args=list(args), keywords=[])


def is_S(node: ast.AST, name: Optional[str] = None) -> bool:
    return (
        isinstance(node, ast.Call)
        and isinstance(node.func, ast.Name)
        and node.func.id.startswith(SYN)
        and (name is None or node.func.id == SYN + name)
    )


_U_CACHE: Dict[int, Tuple[ast.AST, str]] = {}


def U(node: ast.AST) -> str:
    """ast.unparse with a cache (provenance trees are immutable and shared)."""
    hit = _U_CACHE.get(id(node))
    if hit is not None and hit[0] is node:
        return hit[1]
    text = ast.unparse(node)
    if len(_U_CACHE) > 400000:
        _U_CACHE.clear()
    _U_CACHE[id(node)] = (node, text)
    return text


MUTATORS = {
    "append", "extend", "insert", "pop", "remove", "clear", "update", "sort", "fill",
    "resize", "itemset", "put", "setflags", "add", "discard", "setdefault", "popitem",
    "reverse", "setfield", "partition", "byteswap",
}


# ---------------------------------------------------------------------------
# functional substitution


def _rebuild(node, changes):
    kwargs = {field: changes.get(field, value) for field, value in ast.iter_fields(node)}
    new = type(node)(**kwargs)
    for attr in ("lineno", "col_offset", "end_lineno", "end_col_offset"):
        if hasattr(node, attr):
            setattr(new, attr, getattr(node, attr))
    if hasattr(node, "_orig"):
        new._orig = node._orig
    return new


class Rewriter:
    """Bottom-up functional rewriter over shared trees."""

    def visit(self, node):
        return self.generic(node)

    def generic(self, node):
        changes = None
        for field, old in ast.iter_fields(node):
            if isinstance(old, ast.AST):
                new = self.visit(old)
                if new is not old:
                    changes = changes or {}
                    changes[field] = new
            elif isinstance(old, list):
                new_list = None
                for idx, item in enumerate(old):
                    if isinstance(item, ast.AST):
                        new_item = self.visit(item)
                        if new_item is not item:
                            if new_list is None:
                                new_list = list(old)
                            new_list[idx] = new_item
                if new_list is not None:
                    changes = changes or {}
                    changes[field] = new_list
        if not changes:
            return node
        return _rebuild(node, changes)


RECORDS: Dict[str, List[str]] = {}  # NamedTuple / dataclass name -> field names (set by sa.repo from the analysed tree)


def _project_record(node):
    """``_Rec(a, b, c).second`` -> b ; ``_Rec(a, b, c)[1]`` -> b  for the repository's own record classes."""
    value = node.value
    if not (isinstance(value, ast.Call) and isinstance(value.func, ast.Name) and value.func.id in RECORDS):
        return node
    fields = RECORDS[value.func.id]
    if len(value.args) == 1 and isinstance(value.args[0], ast.Starred) and not value.keywords:
        # _Rec(*seq).field_k  ->  seq[k]
        if isinstance(node, ast.Attribute) and node.attr in fields:
            return ast.Subscript(value=value.args[0].value, slice=ast.Constant(fields.index(node.attr)), ctx=ast.Load())
        if isinstance(node, ast.Subscript) and isinstance(node.slice, ast.Constant) and isinstance(node.slice.value, int):
            return ast.Subscript(value=value.args[0].value, slice=node.slice, ctx=ast.Load())
        return node
    if any(isinstance(a, ast.Starred) for a in value.args) or any(kw.arg is None for kw in value.keywords):
        return node
    if isinstance(node, ast.Attribute):
        if node.attr not in fields:
            return node
        idx = fields.index(node.attr)
    elif isinstance(node, ast.Subscript) and isinstance(node.slice, ast.Constant) and isinstance(node.slice.value, int) \
            and 0 <= node.slice.value < len(fields):
        idx = node.slice.value
    else:
        return node
    if idx < len(value.args):
        return value.args[idx]
    for kw in value.keywords:
        if kw.arg == fields[idx]:
            return kw.value
    return node


def _apply_partial(node):
    """``functools.partial(f, a, k=v)(b, c)`` -> ``f(a, b, c, k=v)``"""
    inner = node.func
    name = ast.unparse(inner.func) if isinstance(inner.func, (ast.Name, ast.Attribute)) else ""
    if name not in ("functools.partial", "partial") or not inner.args:
        return node
    return ast.Call(func=inner.args[0], args=list(inner.args[1:]) + list(node.args),
                    keywords=list(inner.keywords) + list(node.keywords))


class _Expander(Rewriter):
    def __init__(self, vars_: Dict[str, ast.expr], counter):
        self.vars = vars_
        self.counter = counter
        self.local: Dict[str, Optional[ast.expr]] = {}

    def visit(self, node):
        if isinstance(node, ast.Name):
            if isinstance(node.ctx, ast.Load):
                if node.id in self.local:
                    value = self.local[node.id]
                    return node if value is None else value
                value = self.vars.get(node.id)
                if value is not None:
                    return value
            return node
        if isinstance(node, ast.Constant):
            return node
        if isinstance(node, (ast.ListComp, ast.SetComp, ast.GeneratorExp)):
            return self._comprehension(node, ["elt"])
        if isinstance(node, ast.DictComp):
            return self._comprehension(node, ["key", "value"])
        if isinstance(node, ast.Lambda):
            saved = dict(self.local)
            args = node.args
            for arg in args.args + args.kwonlyargs + args.posonlyargs:
                self.local[arg.arg] = None
            body = self.visit(node.body)
            self.local = saved
            return node if body is node.body else _rebuild(node, {"body": body})
        new = self.generic(node)
        if isinstance(new, ast.Subscript) and is_S(new.slice, "index") and len(new.slice.args) == 2 \
                and not isinstance(new.value, (ast.Name, ast.Constant)):
            over = new.slice.args[0]
            # E[Σindex(E, tag)] is the element the loop is at:  Σelem(E, tag); same for the tail loop over E[k:]
            if U(new.value) == U(over) or (
                    isinstance(over, ast.Subscript) and isinstance(over.slice, ast.Slice) and over.slice.upper is None
                    and over.slice.step is None and U(over.value) == U(new.value)):
                return S("elem", over, new.slice.args[1])
        if RECORDS and isinstance(new, (ast.Attribute, ast.Subscript)):
            return _project_record(new)
        if isinstance(new, ast.Call) and isinstance(new.func, ast.Call):
            return _apply_partial(new)
        return new

    def _tag(self):
        self.counter[0] += 1
        return ast.Constant(self.counter[0])

    def _comprehension(self, node, elts):
        saved = dict(self.local)
        gens = []
        for gen in node.generators:
            new_iter = self.visit(gen.iter)
            if isinstance(new_iter, (ast.GeneratorExp, ast.ListComp)) and isinstance(gen.target, ast.Name) \
                    and len(new_iter.generators) == 1:
                # fusion:  [g(y) for y in (f(x) for x in S)]  ==  [g(f(x)) for x in S]
                self.local[gen.target.id] = new_iter.elt
                inner = new_iter.generators[0]
                new_ifs = list(inner.ifs) + [self.visit(cond) for cond in gen.ifs]
                gens.append(ast.comprehension(target=inner.target, iter=inner.iter, ifs=new_ifs, is_async=gen.is_async))
                continue
            for name, value in iter_bindings(gen.target, new_iter, self._tag()):
                self.local[name] = value
            new_ifs = [self.visit(cond) for cond in gen.ifs]
            gens.append(
                ast.comprehension(target=gen.target, iter=new_iter, ifs=new_ifs, is_async=gen.is_async)
            )
        changes = {"generators": gens}
        for attr in elts:
            changes[attr] = self.visit(getattr(node, attr))
        self.local = saved
        return _rebuild(node, changes)


_GLOBAL_COUNTER = [10_000_000]


_EXPAND_CACHE: Dict[Tuple[int, int], Tuple[ast.AST, dict, ast.AST]] = {}


def expand(expr: ast.AST, vars_: Dict[str, ast.expr], counter=None) -> ast.AST:
    key = (id(expr), id(vars_))
    hit = _EXPAND_CACHE.get(key)
    if hit is not None and hit[0] is expr and hit[1] is vars_:
        return hit[2]
    out = _Expander(vars_, counter or _GLOBAL_COUNTER).visit(expr)
    if len(_EXPAND_CACHE) > 400000:
        _EXPAND_CACHE.clear()
    _EXPAND_CACHE[key] = (expr, vars_, out)
    return out


def iter_bindings(target: ast.AST, it: ast.expr, tag: ast.Constant):
    """Yield (name, provenance) for a loop target bound to elements of ``it``."""
    if isinstance(target, ast.Name):
        # for idx in range(len(E)):  idx is the position of an element of E (E[idx] is that element, see _Expander)
        if isinstance(it, ast.Call) and isinstance(it.func, ast.Name) and it.func.id == "range" and len(it.args) == 1 \
                and not it.keywords and isinstance(it.args[0], ast.Call) and isinstance(it.args[0].func, ast.Name) \
                and it.args[0].func.id == "len" and len(it.args[0].args) == 1 and not it.args[0].keywords:
            yield target.id, S("index", it.args[0].args[0], tag)
            return
        # for idx in range(k, len(E)):  the position of an element of E[k:]
        if isinstance(it, ast.Call) and isinstance(it.func, ast.Name) and it.func.id == "range" and len(it.args) == 2 \
                and not it.keywords and isinstance(it.args[0], ast.Constant) and isinstance(it.args[0].value, int) \
                and it.args[0].value > 0 and isinstance(it.args[1], ast.Call) and isinstance(it.args[1].func, ast.Name) \
                and it.args[1].func.id == "len" and len(it.args[1].args) == 1 and not it.args[1].keywords:
            tail = ast.Subscript(value=it.args[1].args[0], slice=ast.Slice(lower=it.args[0], upper=None, step=None), ctx=ast.Load())
            yield target.id, S("index", tail, tag)
            return
        yield target.id, S("elem", it, tag)
        return
    if isinstance(target, (ast.Tuple, ast.List)):
        if isinstance(it, ast.Call) and isinstance(it.func, ast.Name) and not it.keywords:
            if (
                it.func.id == "zip"
                and len(it.args) == len(target.elts)
                and not any(isinstance(a, ast.Starred) for a in it.args)
            ):
                for sub, arg in zip(target.elts, it.args):
                    yield from iter_bindings(sub, arg, tag)
                return
            if it.func.id == "enumerate" and len(target.elts) == 2 and len(it.args) >= 1:
                yield from _bind_names(target.elts[0], S("index", it.args[0], tag))
                yield from iter_bindings(target.elts[1], it.args[0], tag)
                return
        if (
            isinstance(it, ast.Call)
            and isinstance(it.func, ast.Attribute)
            and it.func.attr == "items"
            and len(target.elts) == 2
        ):
            yield from _bind_names(target.elts[0], S("key", it.func.value, tag))
            yield from _bind_names(target.elts[1], S("value", it.func.value, tag))
            return
        elem = S("elem", it, tag)
        for idx, sub in enumerate(target.elts):
            yield from _bind_names(
                sub, ast.Subscript(value=elem, slice=ast.Constant(idx), ctx=ast.Load())
            )
        return
    if isinstance(target, ast.Starred):
        yield from iter_bindings(target.value, it, tag)


def _simplify_literal_index(expr):
    """``(a, b)[0]`` -> ``a`` for a tuple / list literal indexed by an integer literal."""
    if isinstance(expr, ast.Subscript) and isinstance(expr.value, (ast.Tuple, ast.List)) and isinstance(expr.slice, ast.Constant) \
            and isinstance(expr.slice.value, int) and not isinstance(expr.slice.value, bool) \
            and -len(expr.value.elts) <= expr.slice.value < len(expr.value.elts) \
            and not any(isinstance(e, ast.Starred) for e in expr.value.elts):
        return _simplify_literal_index(expr.value.elts[expr.slice.value])
    return expr


def _bind_names(target, value):
    if isinstance(target, ast.Name):
        yield target.id, value
    elif isinstance(target, (ast.Tuple, ast.List)):
        for idx, sub in enumerate(target.elts):
            yield from _bind_names(
                sub, ast.Subscript(value=value, slice=ast.Constant(idx), ctx=ast.Load())
            )
    elif isinstance(target, ast.Starred):
        yield from _bind_names(target.value, value)


# ---------------------------------------------------------------------------
# IfExp splitting


def _find_ifexp(node: ast.AST) -> Optional[ast.IfExp]:
    todo = [node]
    while todo:
        cur = todo.pop(0)
        if isinstance(cur, ast.IfExp):
            return cur
        if isinstance(cur, (ast.Lambda, ast.ListComp, ast.SetComp, ast.DictComp, ast.GeneratorExp)):
            continue
        todo.extend(ast.iter_child_nodes(cur))
    return None


class _ReplaceNode(Rewriter):
    def __init__(self, old, new):
        self.old, self.new = old, new

    def visit(self, node):
        if node is self.old:
            return self.new
        if isinstance(node, (ast.Name, ast.Constant)):
            return node
        return self.generic(node)


def _split_ifexp(stmt: ast.stmt):
    """[(assumptions, rewritten stmt)] with every (non-nested-scope) IfExp resolved."""
    results = [([], stmt)]
    for _ in range(6):
        new_results = []
        changed = False
        for assumptions, cur in results:
            ifexp = _find_ifexp(cur)
            if ifexp is None:
                new_results.append((assumptions, cur))
                continue
            changed = True
            for polarity, branch in ((True, ifexp.body), (False, ifexp.orelse)):
                clone = _ReplaceNode(ifexp, branch).visit(cur)
                clone._orig = getattr(cur, "_orig", cur)
                new_results.append((assumptions + [(ifexp.test, polarity)], clone))
        results = new_results
        if not changed:
            break
    return results


# ---------------------------------------------------------------------------
# the interpreter


class Interp:
    def __init__(
        self,
        max_iter: int = 2,
        split_ifexp: bool = True,
        assert_paths: bool = False,
        non_none: Optional[Callable[[ast.expr], bool]] = None,
        prune: bool = True,
        loop_iters: Optional[Dict[int, int]] = None,
        max_paths: int = MAX_PATHS,
    ):
        self.max_paths = max_paths
        self.work = 0
        self.max_iter = max_iter
        self.split_ifexp = split_ifexp
        self.assert_paths = assert_paths
        self.non_none = non_none
        self.prune = prune
        self.loop_iters = loop_iters or {}
        self.live = 0

    # -- entry --------------------------------------------------------------

    def run(self, func: ast.FunctionDef, outer_vars: Optional[Dict[str, ast.expr]] = None) -> List[List[Step]]:
        vars_: Dict[str, ast.expr] = dict(outer_vars or {})
        args = func.args
        allargs = list(args.posonlyargs) + list(args.args) + list(args.kwonlyargs)
        if args.vararg:
            allargs.append(args.vararg)
        if args.kwarg:
            allargs.append(args.kwarg)
        for arg in allargs:
            vars_[arg.arg] = ast.Name(id=PARAM + arg.arg, ctx=ast.Load())
        state = State(None, vars_, {}, {}, [0])
        paths = []
        for st, outcome in self.block(func.body, state):
            if outcome == "fall":
                st.push("end", func)
            elif outcome in ("break", "continue"):
                raise AnalysisError(f"{outcome} outside loop in {func.name}")
            paths.append(st.path())
        return paths

    def _cap(self, results):
        self.work += len(results)
        if len(results) > self.max_paths or self.work > 25 * self.max_paths:
            raise TooManyPaths(f"more than {self.max_paths} paths")

    # -- blocks and statements ---------------------------------------------

    def block(self, stmts, state: State):
        results = [(state, "fall")]
        for stmt in stmts:
            nxt = []
            for st, outcome in results:
                if outcome != "fall":
                    nxt.append((st, outcome))
                else:
                    nxt.extend(self.stmt(stmt, st))
            results = nxt
            self._cap(results)
        return results

    def stmt(self, node, st: State):
        if isinstance(node, ast.If):
            res = []
            s1 = st.fork()
            if self.assume(s1, node.test, True):
                res.extend(self.block(node.body, s1))
            s2 = st.fork()
            if self.assume(s2, node.test, False):
                res.extend(self.block(node.orelse, s2))
            return res
        if isinstance(node, (ast.For, ast.AsyncFor)):
            return self._loop(node, st, True)
        if isinstance(node, ast.While):
            return self._loop(node, st, False)
        if isinstance(node, ast.Try):
            return self._try(node, st)
        if isinstance(node, (ast.With, ast.AsyncWith)):
            for item in node.items:
                st.push("with", item)
                if item.optional_vars is not None:
                    self.bind(st, item.optional_vars, S("enter", expand(item.context_expr, st.vars, st.counter)))
            return self.block(node.body, st)
        if isinstance(node, ast.Return):
            return self._simple(node, st, "return", "return")
        if isinstance(node, ast.Raise):
            st.push("raise", node)
            return [(st, "raise")]
        if isinstance(node, ast.Break):
            return [(st, "break")]
        if isinstance(node, ast.Continue):
            return [(st, "continue")]
        if isinstance(node, (ast.FunctionDef, ast.AsyncFunctionDef, ast.ClassDef)):
            st.push("def", node)
            st.set(node.name, S("closure", ast.Constant(node.name)))
            return [(st, "fall")]
        if isinstance(node, ast.Assert):
            res = []
            if self.assert_paths:
                s2 = st.fork()
                if self.assume(s2, node.test, False):
                    s2.push("raise", node)
                    res.append((s2, "raise"))
            if self.assume(st, node.test, True):
                res.append((st, "fall"))
            return res
        if isinstance(node, (ast.Pass, ast.Import, ast.ImportFrom, ast.Global, ast.Nonlocal)):
            return [(st, "fall")]
        return self._simple(node, st, "stmt", "fall")

    def _simple(self, node, st: State, kind: str, outcome: str):
        variants = [([], node)]
        if self.split_ifexp and _find_ifexp(node) is not None:
            variants = _split_ifexp(node)
        res = []
        for idx, (assumptions, clone) in enumerate(variants):
            cur = st.fork() if len(variants) > 1 else st
            ok = True
            for test, polarity in assumptions:
                if not self.assume(cur, test, polarity):
                    ok = False
                    break
            if not ok:
                continue
            cur.push(kind, clone)
            if kind == "stmt":
                self.effect(cur, clone)
            res.append((cur, outcome))
        return res

    def _loop(self, node, st: State, is_for: bool):
        always = (not is_for) and isinstance(node.test, ast.Constant) and bool(node.test.value)
        max_iter = self.loop_iters.get(id(node), self.max_iter)
        results = []
        running = [st]
        for iteration in range(max_iter + 1):
            nxt = []
            for cur in running:
                known_len = None
                if is_for and self.prune:
                    # iterating a local list / tuple literal: the number of iterations is known
                    seq = expand(node.iter, cur.vars, cur.counter)
                    if isinstance(seq, (ast.List, ast.Tuple)) and not any(isinstance(e, ast.Starred) for e in seq.elts) \
                            and isinstance(node.iter, ast.Name):
                        known_len = len(seq.elts)
                if not always:
                    ex = cur.fork()
                    feasible = True
                    if not is_for:
                        feasible = self.assume(ex, node.test, False)
                    if known_len is not None and iteration < min(known_len, max_iter):
                        feasible = False  # elements are left: the loop cannot end here
                    if feasible:
                        ex.push("loopexit", node, iteration)
                        results.extend(self.block(node.orelse, ex))
                if iteration == max_iter:
                    continue
                if known_len is not None and iteration >= known_len:
                    continue  # no element left
                body = cur.fork()
                if not is_for and not always:
                    if not self.assume(body, node.test, True):
                        continue
                body.push("iter", node, iteration)
                if is_for:
                    it = expand(node.iter, body.vars, body.counter)
                    if known_len is not None and isinstance(it, (ast.List, ast.Tuple)) and iteration < len(it.elts) \
                            and isinstance(node.target, (ast.Tuple, ast.List)):
                        # a local list literal of tuples (pairs collected in a first pass): the k-th iteration unpacks
                        # exactly its k-th element
                        for name, value in _bind_names(node.target, it.elts[iteration]):
                            body.set(name, _simplify_literal_index(value))
                    else:
                        for name, value in iter_bindings(node.target, it, body.fresh()):
                            body.set(name, value)
                for out_state, outcome in self.block(node.body, body):
                    if outcome in ("fall", "continue"):
                        nxt.append(out_state)
                    elif outcome == "break":
                        out_state.push("loopexit", node, "break")
                        results.append((out_state, "fall"))
                    else:
                        results.append((out_state, outcome))
            running = nxt
            self._cap(results)
            self._cap(running)
        return results

    def _try(self, node: ast.Try, st: State):
        results = []

        def with_final(state, outcome):
            if not node.finalbody:
                return [(state, outcome)]
            state.push("finally", node, outcome)
            out = []
            for fstate, fout in self.block(node.finalbody, state):
                out.append((fstate, outcome if fout == "fall" else fout))
            return out

        # exceptional exits first (they fork from prefixes of the body)
        prefixes = [st.fork()]
        cur_states = [(st.fork(), "fall")]
        for stmt in node.body:
            nxt = []
            for state, outcome in cur_states:
                if outcome != "fall":
                    nxt.append((state, outcome))
                    continue
                nxt.extend(self.stmt(stmt, state))
            cur_states = nxt
            for state, outcome in cur_states:
                if outcome == "fall":
                    prefixes.append(state.fork())
        for prefix in prefixes:
            if node.handlers:
                for handler in node.handlers:
                    hstate = prefix.fork()
                    hstate.push("exception", node)
                    hstate.push("except", handler)
                    if handler.name:
                        hstate.set(handler.name, S("exception"))
                    for state, outcome in self.block(handler.body, hstate):
                        results.extend(with_final(state, outcome))
            if node.finalbody:
                ustate = prefix.fork()
                ustate.push("exception", node)
                results.extend(with_final(ustate, "raise"))
        for state, outcome in cur_states:
            if outcome == "fall":
                for s2, o2 in self.block(node.orelse, state):
                    results.extend(with_final(s2, o2))
            else:
                results.extend(with_final(state, outcome))
        self._cap(results)
        return results

    # -- effects ------------------------------------------------------------

    def bind(self, st: State, target, value) -> None:
        if isinstance(target, ast.Name):
            st.set(target.id, value)
        elif isinstance(target, (ast.Tuple, ast.List)):
            if (
                isinstance(value, (ast.Tuple, ast.List))
                and len(value.elts) == len(target.elts)
                and not any(isinstance(e, ast.Starred) for e in list(target.elts) + list(value.elts))
            ):
                for sub, val in zip(target.elts, value.elts):
                    self.bind(st, sub, val)
            else:
                for idx, sub in enumerate(target.elts):
                    if isinstance(sub, ast.Starred):
                        if idx == len(target.elts) - 1:
                            # first, *rest = value  ->  rest is value[1:]
                            self.bind(st, sub.value, ast.Subscript(
                                value=value, slice=ast.Slice(lower=ast.Constant(idx), upper=None, step=None),
                                ctx=ast.Load()))
                        else:
                            self.bind(st, sub.value, S("rest", value, ast.Constant(idx)))
                    else:
                        self.bind(
                            st, sub, ast.Subscript(value=value, slice=ast.Constant(idx), ctx=ast.Load())
                        )
        elif isinstance(target, ast.Starred):
            self.bind(st, target.value, value)
        elif isinstance(target, (ast.Subscript, ast.Attribute)):
            root = target
            while isinstance(root, (ast.Subscript, ast.Attribute)):
                root = root.value
            if isinstance(root, ast.Name):
                st.mutate(root.id, (expand(target, st.vars, st.counter), value))

    def effect(self, st: State, node) -> None:
        if isinstance(node, ast.Assign):
            value = expand(node.value, st.vars, st.counter)
            for target in node.targets:
                self.bind(st, target, value)
        elif isinstance(node, ast.AnnAssign):
            if node.value is not None:
                self.bind(st, node.target, expand(node.value, st.vars, st.counter))
        elif isinstance(node, ast.AugAssign):
            if isinstance(node.target, ast.Name):
                cur = st.vars.get(node.target.id, ast.Name(id=node.target.id, ctx=ast.Load()))
                new = ast.BinOp(left=cur, op=node.op, right=expand(node.value, st.vars, st.counter))
                st.set(node.target.id, new)
            else:
                self.bind(st, node.target, expand(node.value, st.vars, st.counter))
        elif isinstance(node, ast.Delete):
            for target in node.targets:
                if isinstance(target, ast.Name):
                    st.set(target.id, S("deleted"))
        elif isinstance(node, ast.Expr):
            call = node.value
            if isinstance(call, ast.Call) and isinstance(call.func, ast.Attribute):
                root = call.func.value
                while isinstance(root, (ast.Attribute, ast.Subscript)):
                    root = root.value
                if isinstance(root, ast.Name) and call.func.attr in MUTATORS:
                    st.mutate(root.id, (expand(call.func, st.vars, st.counter), expand(call, st.vars, st.counter)))
                    # a local list literal grows with what is appended to it (loops are unrolled, so this is exact)
                    current = st.vars.get(root.id)
                    if root is call.func.value and isinstance(current, ast.List) and not call.keywords \
                            and not any(isinstance(e, ast.Starred) for e in current.elts):
                        grown = None
                        if call.func.attr == "append" and len(call.args) == 1:
                            grown = list(current.elts) + [expand(call.args[0], st.vars, st.counter)]
                        elif call.func.attr == "insert" and len(call.args) == 2 and isinstance(call.args[0], ast.Constant) \
                                and call.args[0].value == 0:
                            grown = [expand(call.args[1], st.vars, st.counter)] + list(current.elts)
                        if grown is not None:
                            muts = st.muts
                            st.set(root.id, ast.List(elts=grown, ctx=ast.Load()))
                            st.muts = muts  # rebinding the name must not forget what was recorded

    # -- feasibility --------------------------------------------------------

    def assume(self, st: State, test, polarity: bool) -> bool:
        """Record an assumption; False if the branch is infeasible."""
        step = st.push("assume", test, polarity)
        if not self.prune:
            return True
        known = self._empty_membership(st, test)
        if known is not None:
            if known != polarity:
                return False
            self._assume(st, expand(test, st.vars, st.counter), polarity)  # keep the fact visible
            return True
        expanded = expand(test, st.vars, st.counter)
        return self._assume(st, expanded, polarity)

    @staticmethod
    def _empty_membership(st: State, test) -> Optional[bool]:
        """``x in C`` / ``x not in C`` where C is a still-empty local container literal."""
        negate = False
        while isinstance(test, ast.UnaryOp) and isinstance(test.op, ast.Not):
            test, negate = test.operand, not negate
        if not (isinstance(test, ast.Compare) and len(test.ops) == 1 and isinstance(test.ops[0], (ast.In, ast.NotIn))):
            return None
        right = test.comparators[0]
        if not isinstance(right, ast.Name) or st.muts.get(right.id):
            return None
        value = st.vars.get(right.id)
        empty = (
            (isinstance(value, (ast.List, ast.Tuple, ast.Set)) and not value.elts)
            or (isinstance(value, ast.Dict) and not value.keys)
            or (isinstance(value, ast.Call) and isinstance(value.func, ast.Name)
                and value.func.id in ("list", "dict", "set", "tuple") and not value.args and not value.keywords)
        )
        if not empty:
            return None
        result = isinstance(test.ops[0], ast.NotIn)
        return (not result) if negate else result

    def _assume(self, st: State, test, polarity: bool) -> bool:
        while isinstance(test, ast.UnaryOp) and isinstance(test.op, ast.Not):
            test, polarity = test.operand, not polarity
        if isinstance(test, ast.BoolOp):
            if isinstance(test.op, ast.And) and polarity:
                return all(self._assume(st, value, True) for value in test.values)
            if isinstance(test.op, ast.Or) and not polarity:
                return all(self._assume(st, value, False) for value in test.values)
        if isinstance(test, ast.Compare) and len(test.ops) == 1:
            op = test.ops[0]
            if isinstance(op, (ast.IsNot, ast.NotEq, ast.NotIn)):
                flipped = {ast.IsNot: ast.Is, ast.NotEq: ast.Eq, ast.NotIn: ast.In}[type(op)]()
                test = ast.Compare(left=test.left, ops=[flipped], comparators=test.comparators)
                polarity = not polarity
        known = self.evaluate(st, test)
        if known is not None:
            return known == polarity
        key = U(test)
        if key in st.facts:
            return st.facts[key][0] == polarity
        st.facts = {**st.facts, key: (polarity, test)}
        return True

    def evaluate(self, st: State, test) -> Optional[bool]:
        if isinstance(test, ast.Constant):
            return bool(test.value)
        if (
            isinstance(test, ast.Subscript)
            and isinstance(test.slice, ast.Constant)
            and test.slice.value == "OWNDATA"
            and isinstance(test.value, ast.Attribute)
            and test.value.attr == "flags"
            and self.non_none is not None
            and self.non_none(test.value.value)
        ):
            return True  # constructor / alignment results own their buffer
        if isinstance(test, ast.Compare) and len(test.ops) == 1 and isinstance(test.ops[0], ast.Is):
            left, right = test.left, test.comparators[0]
            if isinstance(right, ast.Constant) and right.value is None:
                return self.noneness(left)
            if isinstance(right, ast.Constant) and isinstance(left, ast.Constant):
                return left.value is right.value
        return None

    def noneness(self, expr) -> Optional[bool]:
        if isinstance(expr, ast.Constant):
            return expr.value is None
        if isinstance(
            expr,
            (ast.Tuple, ast.List, ast.Dict, ast.Set, ast.ListComp, ast.BinOp, ast.JoinedStr,
             ast.Compare, ast.Lambda, ast.DictComp, ast.SetComp, ast.GeneratorExp),
        ):
            return False
        if self.non_none is not None and self.non_none(expr):
            return False
        return None


def describe_path(path: List[Step]) -> List[str]:
    out = []
    for step in path:
        if step.kind == "assume":
            out.append(f"[{'T' if step.data else 'F'}] {ast.unparse(step.node)}"[:100])
        elif step.kind == "iter":
            out.append(f"iter#{step.data} line {step.node.lineno}")
        elif step.kind in ("return", "raise"):
            out.append(f"{step.kind} line {getattr(step.orig, 'lineno', '?')}")
        elif step.kind == "exception":
            out.append("exception")
    return out


# -- helpers for rules -------------------------------------------------------


class _Strip(Rewriter):
    def visit(self, node):
        if isinstance(node, (ast.Name, ast.Constant)):
            return node
        node = self.generic(node)
        if is_S(node) and node.func.id[1:] in ("elem", "index", "key", "value") and len(node.args) == 2:
            return ast.Call(func=node.func, args=node.args[:1], keywords=[])
        return node


def strip_tags(expr: ast.AST) -> ast.AST:
    """Remove the iteration tags from $elem/$index so that two iterations compare equal."""
    return _Strip().visit(expr)


def root_params(expr: ast.AST) -> List[str]:
    return sorted(
        {n.id[1:] for n in ast.walk(expr) if isinstance(n, ast.Name) and n.id.startswith(PARAM)}
    )


def walk_shared(expr: ast.AST):
    """ast.walk that tolerates shared subtrees (visits each object once)."""
    seen = set()
    todo = [expr]
    while todo:
        node = todo.pop()
        if id(node) in seen:
            continue
        seen.add(id(node))
        yield node
        todo.extend(ast.iter_child_nodes(node))
