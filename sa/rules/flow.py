"""R-FLOW (display options only order the terms) and R-UNSIGNED (uint32 exponents in arithmetic)."""
from __future__ import annotations

import ast
from typing import Optional

from .. import AnalysisError
from ..paths import U, describe_path, is_S, strip_tags, walk_shared
from ..report import Finding, RuleResult
from .common import calls_in, is_param, kwarg, step_exprs
from .opt import option_reads

GLEXSORT = "numpoly.utils.glexsort.glexsort"


def _txt(expr) -> str:
    return U(strip_tags(expr))


def run_flow(ctx) -> RuleResult:
    result = RuleResult(
        "R-FLOW",
        "_to_string: display_graded/display_reverse/display_inverse only determine the iteration order "
        "(arguments of glexsort, a full reversal); the iterable is a permutation of all terms; "
        "display_exponent/display_multiply are only concatenated into the text",
    )
    modname = "numpoly.array_function.array_repr"
    module = ctx.repo.module(modname)
    func = ctx.repo.function(modname, "_to_string")
    reads = option_reads(ctx, module, func)
    if len(reads) < 5:
        # the body may live in a private worker / generator that _to_string merely consumes (list(_iter_terms(...)))
        for call in calls_in(func):
            if isinstance(call.func, ast.Name) and call.func.id in module.functions and call.func.id != func.name:
                helper = module.functions[call.func.id]
                hreads = option_reads(ctx, module, helper)
                if len(hreads) >= 5:
                    func, reads = helper, hreads
                    break
    if len(reads) < 5:
        raise AnalysisError(f"_to_string: only {len(reads)} option reads found")
    loops = [n for n in ast.walk(func) if isinstance(n, ast.For)]
    term_loop = None
    for loop in loops:
        if _owner_loop(loop, func) is None:
            term_loop = term_loop or loop
    if term_loop is None:
        raise AnalysisError("_to_string: term loop not found")
    iter_var = term_loop.iter.id if isinstance(term_loop.iter, ast.Name) else None
    # a local that only holds an option value stands for that option: classify its uses instead
    expanded_reads = []
    for key, node in reads:
        parent = node._parent
        if isinstance(parent, ast.Assign) and parent.value is node and len(parent.targets) == 1 \
                and isinstance(parent.targets[0], ast.Name):
            alias = parent.targets[0].id
            stores = [n for n in ast.walk(func) if isinstance(n, ast.Name) and n.id == alias and isinstance(n.ctx, ast.Store)]
            uses = [n for n in ast.walk(func) if isinstance(n, ast.Name) and n.id == alias and isinstance(n.ctx, ast.Load)]
            if len(stores) == 1 and uses:
                expanded_reads.extend((key, use) for use in uses)
                continue
        # a field of a private record (NamedTuple) that carries the option values:  style = _Style(graded=options[...])
        if isinstance(parent, ast.keyword) and isinstance(getattr(parent, "_parent", None), ast.Call):
            ctor = parent._parent
            from ..paths import RECORDS

            holder = getattr(ctor, "_parent", None)
            if isinstance(ctor.func, ast.Name) and ctor.func.id in RECORDS and isinstance(holder, ast.Assign) \
                    and len(holder.targets) == 1 and isinstance(holder.targets[0], ast.Name) and parent.arg in RECORDS[ctor.func.id]:
                rec = holder.targets[0].id
                stores = [n for n in ast.walk(func) if isinstance(n, ast.Name) and n.id == rec and isinstance(n.ctx, ast.Store)]
                uses = [n for n in ast.walk(func) if isinstance(n, ast.Attribute) and n.attr == parent.arg
                        and isinstance(n.value, ast.Name) and n.value.id == rec and isinstance(n.ctx, ast.Load)]
                if len(stores) == 1 and uses:
                    expanded_reads.extend((key, use) for use in uses)
                    continue
        expanded_reads.append((key, node))
    reads = expanded_reads
    for key, node in reads:
        where = module.loc(node)
        parent = node._parent
        if key in ("display_graded", "display_reverse"):
            want = key.split("_")[1]
            ok = isinstance(parent, ast.keyword) and parent.arg == want
            call = getattr(parent, "_parent", None)
            ok = ok and isinstance(call, ast.Call) and ctx.dotted(module, call.func) == GLEXSORT
            result.ob(f"'{key}' is only the {want}= argument of the term-order glexsort", ok, where, "")
            if not ok:
                result.add(Finding("R-FLOW", module, "_to_string", node,
                                   f"option '{key}' is used outside the glexsort call that orders the terms: it can "
                                   f"change which terms are printed, not only their order"))
        elif key == "display_inverse":
            guard = parent
            ok = isinstance(guard, ast.If) and guard.test is node and not guard.orelse and len(guard.body) == 1
            if ok:
                stmt = guard.body[0]
                ok = (
                    isinstance(stmt, ast.Assign) and len(stmt.targets) == 1 and isinstance(stmt.targets[0], ast.Name)
                    and _is_full_reversal(stmt.value, stmt.targets[0].id)
                )
            result.ob("'display_inverse' only reverses the whole term order", ok, where, U(parent)[:80])
            if not ok:
                result.add(Finding("R-FLOW", module, "_to_string", parent if isinstance(parent, ast.AST) else node,
                                   "option 'display_inverse' must only guard 'indices = indices[::-1]'; here it "
                                   "influences something else (terms can be dropped or repeated)"))
        elif key in ("display_exponent", "display_multiply"):
            cur = node
            ok = True
            while not isinstance(cur, ast.stmt):
                nxt = cur._parent
                if isinstance(nxt, ast.BinOp) and isinstance(nxt.op, ast.Add):
                    pass
                elif isinstance(nxt, ast.AugAssign) and isinstance(nxt.op, ast.Add) and nxt.value is cur:
                    pass
                elif isinstance(nxt, ast.stmt):
                    ok = ok and isinstance(nxt, ast.AugAssign)
                else:
                    ok = False
                cur = nxt
            result.ob(f"'{key}' is only concatenated into the term text", ok, where, U(cur)[:80])
            if not ok:
                result.add(Finding("R-FLOW", module, "_to_string", cur,
                                   f"option '{key}' is used other than as a string joined into the output "
                                   f"(condition, index or coefficient): it can change the polynomial denoted"))
        else:
            result.ob(f"_to_string reads only display options ('{key}')", False, where, "")
            result.add(Finding("R-FLOW", module, "_to_string", node, f"unexpected option '{key}' read while printing"))
    # the iterable is a permutation: glexsort(...) or its full reversal, on every path
    seen = set()
    for path in ctx.paths(module, func, max_iter=1, max_paths=4000):
        for step in path:
            if step.kind == "iter" and step.node is term_loop:
                it = step.expand(step.node.iter)
                text = _txt(it)
                if text in seen:
                    continue
                seen.add(text)
                core = it
                reversed_once = False
                if isinstance(core, ast.Subscript) and _slice_is_reversal(core.slice):
                    core, reversed_once = core.value, True
                elif isinstance(core, ast.Call) and not is_S(core) and ctx.dotted(module, core.func) in ("numpy.flip", "numpy.flipud") \
                        and core.args and (len(core.args) == 1 or (isinstance(core.args[1], ast.Constant) and core.args[1].value in (0, None))) \
                        and all(kw.arg == "axis" and isinstance(kw.value, ast.Constant) and kw.value.value in (0, None)
                                for kw in core.keywords):
                    core, reversed_once = core.args[0], True  # numpy.flip(indices) of a 1-D permutation is indices[::-1]
                ok = isinstance(core, ast.Call) and not is_S(core) and ctx.dotted(module, core.func) == GLEXSORT
                if ok:
                    arg0 = core.args[0] if core.args else None
                    ok = arg0 is not None and ".exponents" in _txt(arg0) and "[" not in _txt(arg0).replace(".exponents.copy()", "")
                result.ob(f"term loop iterates a permutation of all terms: {text[:70]}", ok, module.loc(term_loop), "")
                if not ok:
                    result.add(Finding("R-FLOW", module, "_to_string", term_loop.iter,
                                       f"the term loop iterates {text[:100]}, which is not glexsort(<all exponents>) or "
                                       f"its complete reversal: terms can be skipped or repeated"))
    if not seen:
        raise AnalysisError("_to_string: the term loop is never entered on any path")
    # str/repr print through to_string (full precision), never through numpy's own array printing of values
    for fname, mname in (("array_str", "numpoly.array_function.array_str"), ("array_repr", "numpoly.array_function.array_repr")):
        pmod = ctx.repo.module(mname)
        pfunc = ctx.repo.function(mname, fname)
        for path in ctx.paths(pmod, pfunc):
            last = path[-1]
            if last.kind != "return" or last.node.value is None:
                continue
            value = last.expand(last.node.value)
            text = _txt(value)
            empty = any(".size" in _txt(node) and pol is False for node, pol in last.fact_items())
            ok = "to_string(" in text or (empty and "[]" in text)
            result.ob(f"{fname}: text is produced by to_string [{' / '.join(describe_path(path))}]"[:160], ok,
                      pmod.loc(last.orig), text[:80])
            if not ok:
                result.add(Finding(
                    "R-FLOW", pmod, fname, last.node,
                    f"{fname} returns {text[:80]}, which does not go through to_string: numpy's own array printing "
                    f"rounds to the print precision, so the text no longer denotes the polynomial",
                    derivation=describe_path(path)))
    # coefficient elision: '' only for coefficient == 1, '-' only for coefficient == -1
    n_elide = 0
    # a local bound once to an expression stands for that expression (coefficient = coefficients[idx])
    single = {}
    for node in ast.walk(func):
        if isinstance(node, ast.Assign) and len(node.targets) == 1 and isinstance(node.targets[0], ast.Name):
            single.setdefault(node.targets[0].id, []).append(node.value)

    def canon(expr) -> str:
        for _ in range(4):
            if isinstance(expr, ast.Name) and len(single.get(expr.id, [])) == 1:
                expr = single[expr.id][0]
            else:
                break
        return U(expr)
    for node in ast.walk(term_loop):
        value = None
        if isinstance(node, ast.Assign) and isinstance(node.value, ast.Constant) and node.value.value in ("", "-"):
            value = node.value.value
        if value is None:
            if isinstance(node, ast.Assign) and isinstance(node.value, ast.IfExp):
                branches = [b.value for b in (node.value.body, node.value.orelse) if isinstance(b, ast.Constant)]
                if any(b in ("", "-") for b in branches):
                    value = "ifexp"
            if value is None:
                continue
        n_elide += 1
        guard = node._parent
        want = {"": 1, "-": -1}.get(value)
        ok = False
        compared = None
        if isinstance(guard, ast.If) and node in guard.body and want is not None:
            for conj in (guard.test.values if isinstance(guard.test, ast.BoolOp) and isinstance(guard.test.op, ast.And) else [guard.test]):
                if isinstance(conj, ast.Compare) and len(conj.ops) == 1 and isinstance(conj.ops[0], ast.Eq):
                    comp = conj.comparators[0]
                    lit = comp.value if isinstance(comp, ast.Constant) else (
                        -comp.operand.value if isinstance(comp, ast.UnaryOp) and isinstance(comp.op, ast.USub)
                        and isinstance(comp.operand, ast.Constant) else None)
                    if lit == want and isinstance(conj.left, (ast.Subscript, ast.Name)):
                        compared = canon(conj.left)
            if compared is not None:
                # the compared expression is the coefficient that the fall-back branch prints with str(...)
                chain = guard
                while isinstance(getattr(chain, "_parent", None), ast.If) and chain in chain._parent.orelse:
                    chain = chain._parent
                printed = {canon(c.args[0]) for c in calls_in(chain) if isinstance(c.func, ast.Name) and c.func.id == "str" and c.args}
                ok = compared in printed
        result.ob(f"coefficient text {value!r} is elided only for coefficient == {want}", ok, module.loc(node),
                  U(guard.test)[:80] if isinstance(guard, ast.If) else "")
        if not ok:
            result.add(Finding(
                "R-FLOW", module, "_to_string", node,
                f"the coefficient is dropped from the text ({U(node)[:50]}) under a guard that is not "
                f"'coefficient == {want if want is not None else '+-1'}': coefficients other than +-1 (e.g. complex of modulus 1) "
                f"are printed as 1"))
    if n_elide < 1:
        raise AnalysisError("_to_string: coefficient elision branches not recognised")
    # coefficient text: what is converted to text is the coefficient element itself, never a rounded / cast / reduced
    # function of it (the text must denote the polynomial exactly)
    lossy = {"round", "around", "rint", "floor", "ceil", "trunc", "fix", "int", "float", "abs", "absolute", "astype",
             "real", "imag", "format_float_positional", "format_float_scientific", "array2string", "round_"}
    n_text = 0
    seen_text = set()
    # the term text may be produced in a private generator / helper of the same module that _to_string consumes
    text_funcs = [func] + [f for q, f in module.functions.items()
                           if f is not func and q.startswith("_") and "." not in q and "str(" in U(f)]
    for tfunc in text_funcs:
      for path in ctx.paths(module, tfunc, max_iter=1, max_paths=4000):
        for step in path:
              for raw in step_exprs(step):
                  for call in calls_in(raw):
                      if not (isinstance(call.func, ast.Name) and call.func.id in ("str", "repr", "format") and call.args):
                          continue
                      arg = strip_tags(step.expand(call.args[0]))
                      text = U(arg)
                      if ".coefficients" not in text or (id(call), text) in seen_text:
                          continue
                      seen_text.add((id(call), text))
                      n_text += 1
                      core = arg
                      while isinstance(core, ast.Call) and isinstance(core.func, ast.Attribute) and core.func.attr == "item" \
                              and not core.args:
                          core = core.func.value
                      plain = isinstance(core, ast.Subscript) and U(core.value).endswith(".coefficients")
                      bad = None
                      for node in ast.walk(arg):
                          if isinstance(node, ast.Call):
                              fn = node.func.attr if isinstance(node.func, ast.Attribute) else getattr(node.func, "id", "")
                              if fn in lossy:
                                  bad = fn
                          elif isinstance(node, ast.Attribute) and node.attr in ("real", "imag"):
                              bad = node.attr
                      if call.func.id == "format" and len(call.args) > 1:
                          bad = bad or "format spec"
                      result.ob("the text of a coefficient is produced from the coefficient element itself", plain and not bad,
                                module.loc(step.orig), text[:80])
                      if bad:
                          result.add(Finding(
                              "R-FLOW", module, "_to_string", call,
                              f"the coefficient is converted to text as '{U(call)[:80]}': '{bad}' is applied first, so the digits that "
                              f"are printed are those of a rounded / truncated / projected value and the text no longer denotes the "
                              f"polynomial (e.g. q0/3 printed with 8 decimals)",
                              derivation=describe_path(path), construct=f"coefficient text through {bad}"))
                      elif not plain:
                          raise AnalysisError(f"_to_string: coefficient text idiom not recognised: {U(call)[:100]}")
    if n_text < 1:
        raise AnalysisError("_to_string: no str(<coefficient>) found")
    result.floor = 8
    return result


def _owner_loop(node, func):
    cur = getattr(node, "_parent", None)
    while cur is not None and cur is not func:
        if isinstance(cur, (ast.For, ast.While)):
            return cur
        cur = getattr(cur, "_parent", None)
    return None


def _slice_is_reversal(sl) -> bool:
    return (
        isinstance(sl, ast.Slice) and sl.lower is None and sl.upper is None
        and isinstance(sl.step, ast.UnaryOp) and isinstance(sl.step.op, ast.USub)
        and isinstance(sl.step.operand, ast.Constant) and sl.step.operand.value == 1
    )


def _is_full_reversal(expr, var) -> bool:
    if isinstance(expr, ast.Subscript) and isinstance(expr.value, ast.Name) and expr.value.id == var:
        return _slice_is_reversal(expr.slice)
    if isinstance(expr, ast.Call) and isinstance(expr.func, ast.Attribute) and expr.func.attr in ("flip", "flipud") and expr.args:
        return isinstance(expr.args[0], ast.Name) and expr.args[0].id == var
    return False


# ---------------------------------------------------------------------------
# R-UNSIGNED

SANITISERS = ("int", "float")


def _is_exponent_value(expr) -> bool:
    """Provenance is (an element / row / column of) some X.exponents, unsanitised."""
    node = expr
    for _ in range(10):
        if isinstance(node, ast.Attribute) and node.attr == "exponents":
            return True
        if isinstance(node, ast.Subscript):
            node = node.value
        elif is_S(node) and node.func.id[1:] in ("elem", "rest") and node.args:
            node = node.args[0]
        elif isinstance(node, ast.Attribute) and node.attr == "T":
            node = node.value
        elif isinstance(node, ast.Call) and isinstance(node.func, ast.Attribute) and node.func.attr in (
                "vstack", "concatenate", "stack", "array", "asarray", "unique") and node.args:
            inner = node.args[0]
            if isinstance(inner, (ast.ListComp, ast.GeneratorExp)):
                node = inner.elt
            elif isinstance(inner, (ast.List, ast.Tuple)) and inner.elts:
                node = inner.elts[0]
            else:
                node = inner
        else:
            return False
    return False


def _exponent_matrix(expr):
    node = expr
    for _ in range(10):
        if isinstance(node, ast.Attribute) and node.attr == "exponents":
            return node
        if isinstance(node, ast.Subscript):
            node = node.value
        elif is_S(node) and node.args:
            node = node.args[0]
        else:
            return None
    return None


def run_unsigned(ctx) -> RuleResult:
    result = RuleResult(
        "R-UNSIGNED",
        "uint32 exponents: no subtraction on an unsanitised exponent value without a component-wise guard "
        "(wrap-around), no ** between a caller-supplied value and an unsanitised uint32 exponent "
        "(the result would depend on the numeric type carrying the argument)",
    )
    n = 0
    for module, qual, func in ctx.repo.analysed_functions():
        if module.is_pyx or "exponent" not in ast.unparse(func):
            continue
        fq = f"{module.name}.{qual}"
        seen = set()
        for path in ctx.paths_auto(module, func):
            for step in path:
                nodes = []
                if step.kind == "stmt" and isinstance(step.node, ast.AugAssign) and isinstance(step.node.op, (ast.Sub, ast.Pow)):
                    nodes.append(("aug", step.node))
                for raw in step_exprs(step):
                    for sub in ast.walk(raw):
                        if isinstance(sub, ast.BinOp) and isinstance(sub.op, (ast.Sub, ast.Pow)):
                            nodes.append(("bin", sub))
                for kind, node in nodes:
                    ckey = (id(node), id(step.vars))
                    if ckey in seen:
                        continue
                    seen.add(ckey)
                    if kind == "aug":
                        left = step.expand(_load(node.target))
                        right = step.expand(node.value)
                        op = node.op
                    else:
                        left, right, op = step.expand(node.left), step.expand(node.right), node.op
                    if isinstance(op, ast.Sub) and _is_exponent_value(left):
                        n += 1
                        ok, why = _sub_guarded(ctx, module, fq, left, right, step)
                        result.ob(f"{fq}: subtraction on uint32 exponents is guarded ({why})", ok, module.loc(step.orig), "")
                        if not ok:
                            result.add(Finding(
                                "R-UNSIGNED", module, qual, node,
                                f"'{U(getattr(node, '_orig', node))[:60]}' relies on a component-wise guard of the unsigned "
                                f"exponents that is not (or no longer) in place: {why}",
                                derivation=describe_path(path)))
                    if isinstance(op, ast.Pow) and _is_exponent_value(right):
                        n += 1
                        base_poly = _is_indeterminants(left)
                        result.ob(f"{fq}: power with a uint32 exponent has a polynomial base", base_poly,
                                  module.loc(step.orig), _txt(left)[:80])
                        if not base_poly:
                            result.add(Finding(
                                "R-UNSIGNED", module, qual, node,
                                f"'{U(getattr(node, '_orig', node))[:60]}': a caller-supplied value is raised to an "
                                f"unsanitised numpy.uint32 exponent; numpy 2 casts a Python scalar base to uint32 "
                                f"(poly(-1) overflows) - wrap the exponent in int()",
                                derivation=describe_path(path)))
            # exponent rows collapsed into one number each (dot product with weights) while still uint32
            for step in path:
                for raw in step_exprs(step):
                    for sub in ast.walk(raw):
                        if isinstance(sub, ast.BinOp) and isinstance(sub.op, ast.MatMult) and (id(sub), id(step.vars)) not in seen:
                            seen.add((id(sub), id(step.vars)))
                            left, right = step.expand(sub.left), step.expand(sub.right)
                            if _is_exponent_value(left) or _is_exponent_value(right):
                                n += 1
                                result.ob(f"{fq}: uint32 exponent rows are not folded into scalar ranks", False,
                                          module.loc(step.orig), _txt(sub)[:80])
                                result.add(Finding(
                                    "R-UNSIGNED", module, qual, sub,
                                    f"'{U(getattr(sub, '_orig', sub))[:60]}' folds unsanitised numpy.uint32 exponent rows into one "
                                    f"number per row: the dot product stays uint32 and wraps silently at 2**32, so two different "
                                    f"exponent tuples can receive the same rank and one monomial is dropped or merged",
                                    derivation=describe_path(path), construct="uint32 exponent rows folded into ranks"))
            # a product of uint32 exponents with a run-time value handed on as an exponent matrix
            for step in path:
                for raw in step_exprs(step):
                    for call in ast.walk(raw):
                        if not isinstance(call, ast.Call):
                            continue
                        exps = None
                        fname = call.func.attr if isinstance(call.func, ast.Attribute) else getattr(call.func, "id", "")
                        if fname in ("from_attributes", "polynomial_from_attributes", "ndpoly"):
                            exps = next((kw.value for kw in call.keywords if kw.arg == "exponents"), None) or (
                                call.args[0] if call.args else None)
                        if exps is None or (id(exps), id(step.vars)) in seen:
                            continue
                        seen.add((id(exps), id(step.vars)))
                        expanded = step.expand(exps)
                        for sub in _top_level(expanded):
                            if isinstance(sub, ast.BinOp) and isinstance(sub.op, ast.Mult):
                                for this, other in ((sub.left, sub.right), (sub.right, sub.left)):
                                    if _is_exponent_value(this) and not isinstance(other, ast.Constant):
                                        n += 1
                                        result.ob(f"{fq}: uint32 exponents are not scaled by a run-time value", False,
                                                  module.loc(step.orig), _txt(sub)[:80])
                                        result.add(Finding(
                                            "R-UNSIGNED", module, qual, call,
                                            f"the exponent matrix '{_txt(sub)[:70]}' multiplies unsanitised numpy.uint32 "
                                            f"exponents by a run-time value: the product stays uint32 and wraps silently at "
                                            f"2**32, so a different monomial is stored instead of raising - widen first "
                                            f"(astype(int))", derivation=describe_path(path),
                                            construct="uint32 exponents scaled by a run-time value"))
                                        break
    result.info["arithmetic_sinks"] = n
    if n < 2:
        raise AnalysisError(f"R-UNSIGNED: only {n} exponent arithmetic sinks found (confirmed 3)")
    result.floor = 2
    return result


def _top_level(expr):
    """Sub-expressions that make up the VALUE of expr, not descending below an attribute access such as
    X.exponents (whatever computed X is not part of this value's arithmetic)."""
    todo = [expr]
    seen = set()
    while todo:
        node = todo.pop()
        if id(node) in seen:
            continue
        seen.add(id(node))
        yield node
        if isinstance(node, ast.Attribute):
            if node.attr in ("T", "real"):
                todo.append(node.value)
            continue
        if isinstance(node, ast.Call):
            if is_S(node):
                todo.extend(node.args[:1])
            elif isinstance(node.func, ast.Attribute) and node.func.attr in ("copy", "astype", "reshape", "ravel", "flatten", "view"):
                todo.append(node.func.value)
            elif isinstance(node.func, ast.Attribute) and isinstance(node.func.value, ast.Name) and node.func.value.id in ("numpy", "np"):
                todo.extend(node.args)
            continue
        todo.extend(ast.iter_child_nodes(node))


def _is_indeterminants(expr) -> bool:
    """The base of a power is always an ndpoly: (a subscript of) X.indeterminants."""
    node = expr
    for _ in range(6):
        if isinstance(node, ast.Attribute) and node.attr == "indeterminants":
            return True
        if isinstance(node, ast.Subscript) or (is_S(node) and node.args):
            node = node.value if isinstance(node, ast.Subscript) else node.args[0]
        else:
            return False
    return False


def _load(target):
    if isinstance(target, ast.Name):
        return ast.Name(id=target.id, ctx=ast.Load())
    return target


def _sub_guarded(ctx, module, fq, left, right, step):
    # (a) rows were filtered by '<same column> > 0'
    matrix = None
    node = left
    # left is E[:, idx] (the AugAssign target) or E[rows]
    cur = left
    while isinstance(cur, ast.Subscript):
        inner = cur.value
        if isinstance(inner, ast.Subscript):
            mask = inner.slice
            text = _txt(mask)
            if isinstance(mask, ast.Compare) and len(mask.ops) == 1 and isinstance(mask.ops[0], (ast.Gt, ast.GtE)) \
                    and _is_exponent_value(mask.left):
                bound = mask.comparators[0]
                if isinstance(bound, ast.Constant) and (
                    (isinstance(mask.ops[0], ast.Gt) and bound.value >= 0) or (isinstance(mask.ops[0], ast.GtE) and bound.value >= 1)
                ):
                    # same column?
                    if _txt(mask.left.slice) == _txt(cur.slice) if isinstance(mask.left, ast.Subscript) else False:
                        if isinstance(right, ast.Constant) and right.value == 1:
                            return True, "rows filtered by 'column > 0' before decrementing"
        cur = inner
    # (b) poly_divmod: the pair comes from get_division_candidate which skips exponent1 < exponent2
    if ".exponents" in _txt(right) and "get_division_candidate(" in _txt(left) + _txt(right):
        found = ctx.function_node("numpoly.poly_function.divide.divmod.get_division_candidate")
        if found is None:
            return False, "get_division_candidate is missing"
        gmod, gfunc = found
        # the search may live in private helpers of the same module that get_division_candidate calls
        bodies = [gfunc]
        for call in calls_in(gfunc):
            if isinstance(call.func, ast.Name) and call.func.id in gmod.functions and call.func.id != gfunc.name:
                bodies.append(gmod.functions[call.func.id])
        raw_g = ctx.repo.raw_function(gmod.name, gfunc.name)
        for call in calls_in(raw_g):
            if isinstance(call.func, ast.Name) and call.func.id in gmod.functions and call.func.id != gfunc.name:
                bodies.append(gmod.functions[call.func.id])
        for sub in [n for body in bodies for n in ast.walk(body)]:
            if isinstance(sub, ast.If):
                test = U(sub.test)
                is_any = any(ctx.dotted(gmod, c.func) == "numpy.any" for c in calls_in(sub.test))
                if "<" in test and is_any and "exponent" in test:
                    if any(isinstance(s, ast.Continue) for s in sub.body):
                        return True, "pair chosen by get_division_candidate, which skips candidates with exponent1 < exponent2"
                    if any(isinstance(s, (ast.Break, ast.Return)) for s in sub.body):
                        return False, ("get_division_candidate ends its search (break/return) at the first dividend term "
                                       "that is not divisible instead of skipping it (continue): divisible terms further "
                                       "down are never reduced, exact multiples keep a remainder")
        return False, "get_division_candidate no longer skips candidates whose exponent is smaller than the divisor's"
    return False, "no guard recognised"


# ---------------------------------------------------------------------------
# R-LAYOUT: positional column indices need a known names layout


def _layout_known(ctx, module, expr) -> bool:
    """The names tuple of this polynomial is independent of the global retain_names option:
    the caller's own polynomial, an alignment result, or a construction that pins retain_names."""
    node = expr
    if isinstance(node, ast.Subscript) and isinstance(node.value, ast.Call) and not is_S(node.value):
        name = ctx.dotted(module, node.value.func) or ""
        if name.startswith("numpoly.align.align_"):
            return True
    if isinstance(node, ast.Call) and not is_S(node):
        name = ctx.dotted(module, node.func) or ""
        if name == "numpoly.construct.aspolynomial.aspolynomial" and node.args and is_param(node.args[0]):
            return True
        if "from_attributes" in name or (name == "" and isinstance(node.func, ast.Attribute) and node.func.attr == "from_attributes"):
            pin = kwarg(node, "retain_names")
            return isinstance(pin, ast.Constant) and pin.value is True
    if is_param(node):
        return True
    return False


def run_layout(ctx) -> RuleResult:
    result = RuleResult(
        "R-LAYOUT",
        "derivative: a positional column index is only applied to the exponent matrix of a polynomial whose "
        "names layout does not depend on the global retain_names option (caller's polynomial, alignment result, "
        "or construction with retain_names=True)",
    )
    modname = "numpoly.poly_function.derivative"
    module = ctx.repo.module(modname)
    func = ctx.repo.function(modname, "derivative")
    n = 0
    seen = set()
    for path in ctx.paths_auto(module, func):
        for step in path:
            for raw in step_exprs(step) + ([step.node.target] if step.kind == "stmt" and isinstance(step.node, ast.AugAssign) else []):
                for sub in ast.walk(raw):
                    if not isinstance(sub, ast.Subscript):
                        continue
                    exp = step.expand(ast.Subscript(value=sub.value, slice=sub.slice, ctx=ast.Load()))
                    matrix = _exponent_matrix(exp.value)
                    if matrix is None:
                        continue
                    # a column index: X.exponents[:, i]  or a row element exponent[i]
                    sl = exp.slice
                    column = None
                    if isinstance(sl, ast.Tuple) and len(sl.elts) == 2:
                        column = sl.elts[1]
                    elif is_S(exp.value, "elem") and not isinstance(sl, (ast.Slice, ast.Tuple)):
                        column = sl
                    if column is None or isinstance(column, ast.Slice):
                        continue
                    ckey = (_txt(exp), )
                    base = matrix.value
                    from_names = isinstance(column, ast.Call) and isinstance(column.func, ast.Attribute) and column.func.attr == "index" \
                        and ".names" in _txt(column.func.value)
                    known = _layout_known(ctx, module, base)
                    ok = known or (from_names and _txt(column.func.value.value) == _txt(base))
                    key = (id(sub), _txt(base)[:200], ok)
                    if key in seen:
                        continue
                    seen.add(key)
                    n += 1
                    result.ob("derivative: column index applied to a polynomial with a known names layout", ok,
                              module.loc(step.orig), _txt(base)[:90])
                    if not ok:
                        result.add(Finding(
                            "R-LAYOUT", module, "derivative", sub,
                            f"column {_txt(column)[:40]} is applied to the exponents of '{_txt(base)[:90]}', a polynomial "
                            f"rebuilt without retain_names=True and not re-aligned with the reference: under "
                            f"retain_names=False its columns may have been dropped, so the index addresses another variable",
                            derivation=describe_path(path)))
    result.info["column_index_sites"] = n
    if n < 2:
        raise AnalysisError(f"R-LAYOUT: only {n} column index sites found in derivative")
    result.floor = 2
    return result
