"""Small anchored rules: R-DIVGUARD (cross_truncate) and R-SETDIM (set_dimensions)."""
from __future__ import annotations

import ast

from .. import AnalysisError
from ..paths import U, describe_path, is_S, strip_tags, walk_shared
from ..report import Finding, RuleResult
from .common import calls_in, is_param, kwarg, step_exprs


def _txt(expr) -> str:
    return U(strip_tags(expr))


def run_divguard(ctx) -> RuleResult:
    """One path checks, the other divides: Engler's contradiction rule on cross_truncate."""
    result = RuleResult(
        "R-DIVGUARD",
        "cross_truncate divides the indices by the bound vector only on paths that established that no "
        "component of the bound is negative and none is zero (any(bound < 0) and any(bound == 0) both false)",
    )
    modname = "numpoly.utils.cross_truncation"
    module = ctx.repo.module(modname)
    func = ctx.repo.function(modname, "cross_truncate")
    n = 0
    seen = set()
    for path in ctx.paths_auto(module, func):
        for step in path:
            candidates = [n2 for raw in step_exprs(step) for n2 in ast.walk(raw)]
            if step.kind == "stmt" and isinstance(step.node, ast.AugAssign):
                candidates.append(step.node)  # x /= bound
            for raw in [None]:
                for node in candidates:
                    if isinstance(node, ast.AugAssign) and isinstance(node.op, (ast.Div, ast.FloorDiv, ast.Mod)):
                        right = step.expand(node.value)
                    elif isinstance(node, ast.BinOp) and isinstance(node.op, (ast.Div, ast.FloorDiv, ast.Mod)):
                        right = step.expand(node.right)
                    else:
                        continue
                    if "πbound" not in _txt(right):
                        continue
                    key = (id(node), id(step.facts))
                    if key in seen:
                        continue
                    seen.add(key)
                    n += 1
                    btxt = _txt(right)
                    neg = zero = False
                    for test, pol in step.fact_items():
                        if pol is not False or not isinstance(test, ast.Call) or is_S(test):
                            continue
                        if ctx.dotted(module, test.func) == "numpy.any" and test.args:
                            arg = test.args[0]
                        elif isinstance(test.func, ast.Attribute) and test.func.attr == "any" and not test.args:
                            arg = test.func.value
                        else:
                            continue
                        if isinstance(arg, ast.Compare) and len(arg.ops) == 1 and _txt(arg.left) == btxt \
                                and isinstance(arg.comparators[0], ast.Constant) and arg.comparators[0].value == 0:
                            if isinstance(arg.ops[0], (ast.Lt, ast.LtE)):
                                neg = True
                            if isinstance(arg.ops[0], (ast.Eq, ast.LtE)):
                                zero = True
                    ok = neg and zero
                    trace = describe_path(path)
                    result.ob(f"division by the bound only after both sign guards [{' / '.join(trace)}]"[:200], ok,
                              module.loc(step.orig), f"negative excluded={neg} zero excluded={zero}")
                    if not ok:
                        what = []
                        if not neg:
                            what.append("'numpy.any(bound < 0)' was not excluded")
                        if not zero:
                            what.append("'numpy.any(bound == 0)' was not excluded")
                        result.add(Finding(
                            "R-DIVGUARD", module, "cross_truncate", node,
                            "indices are divided by the bound vector on a path where " + " and ".join(what)
                            + ": a mixed-sign or zero bound reaches the norm formula (wrong membership / NaN)",
                            derivation=trace))
    if n == 0:
        raise AnalysisError("cross_truncate: no division by the bound found (anchor changed)")
    result.floor = 1
    return result


def _is_dropped_columns(expr, dims_param: str):
    """expr is ``X.exponents[:, dimensions:]``; returns X text or None."""
    if isinstance(expr, ast.Subscript) and isinstance(expr.slice, ast.Tuple) and len(expr.slice.elts) == 2:
        col = expr.slice.elts[1]
        if isinstance(col, ast.Slice) and col.upper is None and col.lower is not None and _txt(col.lower) == dims_param:
            if isinstance(expr.value, ast.Attribute) and expr.value.attr == "exponents":
                return _txt(expr.value.value)
    return None


def run_setdim(ctx) -> RuleResult:
    result = RuleResult(
        "R-SETDIM",
        "set_dimensions, dropping trailing indeterminates: a term is kept iff none of the dropped exponent "
        "columns is non-zero (mask = not any(dropped columns)); kept columns and dropped columns are "
        "complementary slices",
    )
    modname = "numpoly.poly_function.set_dimensions"
    module = ctx.repo.module(modname)
    func = ctx.repo.function(modname, "set_dimensions")
    dims = "π" + [a.arg for a in func.args.args][1]
    n = 0
    seen = set()
    for path in ctx.paths_auto(module, func):
        last = path[-1]
        if last.kind != "return" or last.node.value is None:
            continue
        value = last.expand(last.node.value)
        if not isinstance(value, ast.Call):
            continue
        exps = kwarg(value, "exponents")
        if exps is None:
            continue
        # exponents = X.exponents[:, :dimensions][mask]
        if not (isinstance(exps, ast.Subscript) and isinstance(exps.value, ast.Subscript)):
            continue
        inner = exps.value
        mask = exps.slice
        if not (isinstance(inner.slice, ast.Tuple) and len(inner.slice.elts) == 2 and isinstance(inner.slice.elts[1], ast.Slice)):
            continue
        kept = inner.slice.elts[1]
        text = _txt(mask)
        if text in seen:
            continue
        seen.add(text)
        n += 1
        where = module.loc(last.orig)
        ok_kept = kept.lower is None and kept.upper is not None
        dims = _txt(kept.upper) if ok_kept else dims  # dropped columns must start where the kept ones end
        result.ob("kept columns are [:, :dimensions]", ok_kept, where, _txt(inner)[:80])
        if not ok_kept:
            result.add(Finding("R-SETDIM", module, "set_dimensions", last.node,
                               f"the kept exponent columns are {_txt(inner.slice)[:60]}, not [:, :dimensions]",
                               construct="set_dimensions: kept columns"))
        verdict, why = _classify_mask(ctx, module, mask, dims)
        if verdict is None:
            raise AnalysisError(f"set_dimensions: unrecognised term mask {text[:100]}")
        result.ob("term kept iff no dropped column is non-zero", verdict, where, text[:100])
        if not verdict:
            result.add(Finding(
                "R-SETDIM", module, "set_dimensions", last.node,
                f"the term mask is {text[:100]}: {why} - terms that involve some but not all of the dropped "
                f"indeterminates survive with those exponents cut off", construct=f"set_dimensions: mask {text[:80]}"))
    if n == 0:
        raise AnalysisError("set_dimensions: the dropping branch was not recognised")
    # coefficients filtered by the same mask (every path, comprehension or accumulate-loop form)
    verdicts = {}
    for path in ctx.paths_auto(module, func):
        last = path[-1]
        if last.kind != "return" or not isinstance(last.node.value, ast.Call):
            continue
        value = last.expand(last.node.value)
        exps, coefs = kwarg(value, "exponents"), kwarg(value, "coefficients")
        if coefs is None or not (isinstance(exps, ast.Subscript) and isinstance(exps.value, ast.Subscript)):
            continue
        text = _txt(exps.slice)
        if text not in seen:
            continue
        verdict = _coefficient_filter(path, last, coefs, text)
        if verdict is not None:
            verdicts.setdefault(text, []).append((verdict, last, _txt(coefs)[:100]))
    for text, found in verdicts.items():
        bad = [f for f in found if not f[0]]
        _, last, shown = (bad or found)[0]
        result.ob("coefficients are filtered with the same mask", not bad, module.loc(last.orig), shown)
        if bad:
            result.add(Finding("R-SETDIM", module, "set_dimensions", last.node,
                               "exponent rows and coefficient columns are filtered with different masks",
                               construct="set_dimensions: coefficient filter"))
    if set(verdicts) != seen:
        raise AnalysisError("set_dimensions: how the coefficients are filtered was not recognised")
    result.floor = 2
    return result


def _coefficient_filter(path, last, coefs, mask_text):
    """True/False: coefficients filtered with the same / a different mask; None: this path does not say."""
    orig = kwarg(last.node.value, "coefficients")
    accumulated = isinstance(coefs, ast.List) and isinstance(orig, ast.Name) and (
        not coefs.elts or bool(last.muts.get(orig.id)))
    if not accumulated:
        return mask_text in _txt(coefs)
    # accumulate form:  kept = []; for c, keep in zip(X.coefficients, mask): if keep: kept.append(c)
    if not isinstance(orig, ast.Name):
        return None
    appended = set()
    for target, call in last.muts.get(orig.id, ()):
        if isinstance(target, ast.Attribute) and target.attr == "append" and isinstance(call, ast.Call) and call.args:
            elem = call.args[0]
            if is_S(elem, "elem") and "coefficients" in U(elem.args[0]):
                appended.add(U(elem.args[1]))
            else:
                return False
        else:
            return None
    selected, rejected, other = set(), set(), False
    for step in path:
        if step.kind != "assume":
            continue
        test = step.expand(step.node)
        if is_S(test, "elem"):
            if _txt(test.args[0]) == mask_text:
                (selected if step.data else rejected).add(U(test.args[1]))
            else:
                other = True
    if not appended and not selected and not rejected:
        return False if other else None
    return appended == selected and not (appended & rejected)


def _classify_mask(ctx, module, mask, dims):
    """(True, '') accepted; (False, reason) known-wrong; (None, '') unknown."""
    def any_of_dropped(node):
        if isinstance(node, ast.Call) and not is_S(node) and node.args:
            name = ctx.dotted(module, node.func)
            if name in ("numpy.any", "numpy.all"):
                arg = node.args[0]
                if _is_dropped_columns(arg, dims) is not None:
                    return name.split(".")[-1], "raw"
                if isinstance(arg, ast.Compare) and len(arg.ops) == 1 and _is_dropped_columns(arg.left, dims) is not None \
                        and isinstance(arg.comparators[0], ast.Constant) and arg.comparators[0].value == 0:
                    return name.split(".")[-1], "eq0" if isinstance(arg.ops[0], ast.Eq) else "ne0"
        return None

    negated = False
    node = mask
    if isinstance(node, ast.UnaryOp) and isinstance(node.op, (ast.Invert, ast.Not)):
        negated, node = True, node.operand
    elif isinstance(node, ast.BinOp) and isinstance(node.op, ast.BitXor) and isinstance(node.left, ast.Constant) and node.left.value is True:
        negated, node = True, node.right
    elif isinstance(node, ast.Call) and not is_S(node) and ctx.dotted(module, node.func) == "numpy.logical_not" and node.args:
        negated, node = True, node.args[0]
    if isinstance(node, ast.Compare) and len(node.ops) == 1 and isinstance(node.ops[0], ast.Eq) and not negated:
        left = node.left
        if isinstance(left, ast.Call) and not is_S(left) and ctx.dotted(module, left.func) == "numpy.sum" and left.args \
                and _is_dropped_columns(left.args[0], dims) is not None and isinstance(node.comparators[0], ast.Constant) \
                and node.comparators[0].value == 0:
            return True, ""
    found = any_of_dropped(node)
    if found is None:
        return None, ""
    fn, form = found
    # "some dropped exponent is non-zero"
    some_nonzero = (fn == "any" and form in ("raw", "ne0"))
    none_nonzero = (fn == "all" and form == "eq0")
    if (negated and some_nonzero) or (not negated and none_nonzero):
        return True, ""
    if negated and fn == "all" and form in ("raw", "ne0"):
        return False, "'not all(dropped columns non-zero)' keeps every term that misses at least one dropped indeterminate"
    if not negated and some_nonzero:
        return False, "the mask selects the terms that DO involve a dropped indeterminate"
    if negated and none_nonzero:
        return False, "the mask is inverted"
    if not negated and fn == "any" and form == "eq0":
        return False, "'any(dropped columns == 0)' keeps every term that misses at least one dropped indeterminate"
    return None, ""


# ---------------------------------------------------------------------------
# R-CLEAN: which terms / names the clean-up may drop


def _any_call(ctx, module, node):
    """numpy.any(x) / x.any() -> x ; else None"""
    if isinstance(node, ast.Call) and not is_S(node):
        name = ctx.dotted(module, node.func)
        if name in ("numpy.any", "numpy.count_nonzero") and node.args:
            return node.args[0]
        if name is None and isinstance(node.func, ast.Attribute) and node.func.attr == "any" and not node.args:
            return node.func.value
    return None


def run_clean(ctx) -> RuleResult:
    result = RuleResult(
        "R-CLEAN",
        "remove_redundant_coefficients keeps a term iff any(coefficient) or the exponent is all-zero, and falls "
        "back to the zero polynomial when nothing is left; remove_redundant_names keeps a column iff some "
        "exponent in it is non-zero and never drops all columns; isconstant ignores exactly the constant term",
    )
    modname = "numpoly.construct.clean"
    module = ctx.repo.module(modname)
    func = ctx.repo.function(modname, "remove_redundant_coefficients")
    cond = exp_name = coef_name = None
    comps = [n for n in ast.walk(func) if isinstance(n, (ast.ListComp, ast.GeneratorExp)) and n.generators and n.generators[0].ifs]
    if len(comps) == 1:
        gen = comps[0].generators[0]
        if isinstance(gen.iter, ast.Call) and isinstance(gen.iter.func, ast.Name) and gen.iter.func.id == "zip" \
                and isinstance(gen.target, ast.Tuple) and len(gen.target.elts) == 2:
            cond = gen.ifs[0]
            exp_name, coef_name = gen.target.elts[0].id, gen.target.elts[1].id
    if cond is None:
        # loop form:  for exponent, coefficient in zip(...):  if <keep>: kept.append(...)
        for loop in [n for n in ast.walk(func) if isinstance(n, ast.For)]:
            if isinstance(loop.iter, ast.Call) and isinstance(loop.iter.func, ast.Name) and loop.iter.func.id == "zip" \
                    and isinstance(loop.target, ast.Tuple) and len(loop.target.elts) == 2:
                ifs = [st for st in loop.body if isinstance(st, ast.If)]
                if len(ifs) == 1 and any(isinstance(c.func, ast.Attribute) and c.func.attr == "append" for c in calls_in(ifs[0])
                                         if isinstance(c.func, ast.Attribute)) and not ifs[0].orelse:
                    cond = ifs[0].test
                    exp_name, coef_name = loop.target.elts[0].id, loop.target.elts[1].id
    if cond is None:
        raise AnalysisError("remove_redundant_coefficients: keep-predicate (filtering comprehension or loop) not recognised")
    disj = cond.values if isinstance(cond, ast.BoolOp) and isinstance(cond.op, ast.Or) else [cond]
    keeps_nonzero = keeps_constant = False
    problems = []
    formula = _term_formula(ctx, module, cond, exp_name, coef_name)
    if formula is not None:
        # any boolean combination of any(exponent) / any(coefficient): compare the truth table with 'C or not E'
        keeps_nonzero = bool(formula(False, True)) and bool(formula(True, True))
        keeps_constant = bool(formula(False, False))
        if formula(True, False):
            problems.append("all-zero non-constant terms are kept")
        disj = []
    for part in disj:
        inner = _any_call(ctx, module, part)
        if inner is not None and isinstance(inner, ast.Name) and inner.id == coef_name:
            keeps_nonzero = True
            continue
        if isinstance(part, ast.UnaryOp) and isinstance(part.op, ast.Not):
            inner = _any_call(ctx, module, part.operand)
            if inner is not None and isinstance(inner, ast.Name) and inner.id == exp_name:
                keeps_constant = True
                continue
        # known-wrong forms are reported; anything else is outside the recognised idioms
        text = U(part)
        wrong = False
        if isinstance(part, ast.Call) and not is_S(part):
            name = ctx.dotted(module, part.func) or (part.func.attr if isinstance(part.func, ast.Attribute) else "")
            if name.split(".")[-1] in ("all", "sum", "prod", "max", "min", "mean", "allclose", "isclose"):
                wrong = True
        if isinstance(part, ast.Subscript) or (isinstance(part, ast.Name) and part.id == coef_name):
            wrong = True  # truthiness of an array element / the whole array
        inner = _any_call(ctx, module, part)
        if inner is not None and not isinstance(inner, ast.Name):
            # numpy.any(<expression of the coefficient>): accept comparisons with zero
            if isinstance(inner, ast.Compare) and isinstance(inner.left, ast.Name) and inner.left.id == coef_name \
                    and isinstance(inner.ops[0], ast.NotEq):
                keeps_nonzero = True
                continue
        if not wrong:
            raise AnalysisError(f"remove_redundant_coefficients: unrecognised keep-predicate part '{text}'")
        problems.append(text)
    where = module.loc(cond)
    ok = keeps_nonzero and not problems
    result.ob("a term is kept whenever one of its coefficients is non-zero (numpy.any)", ok, where, U(cond))
    if not ok:
        result.add(Finding(
            "R-CLEAN", module, "remove_redundant_coefficients", cond,
            f"the keep-predicate is '{U(cond)}': a term must be kept iff numpy.any(coefficient) (a sum/all/first-element "
            f"test drops terms whose coefficients cancel across the array or are zero only in places)"))
    result.ob("the constant term is always kept", keeps_constant, where, U(cond))
    if not keeps_constant:
        result.add(Finding("R-CLEAN", module, "remove_redundant_coefficients", cond,
                           "the constant term (all-zero exponent) is no longer kept unconditionally",
                           construct="keep-predicate: constant term"))
    # the fall-back coefficient is a zero array with the shape and dtype of the input coefficients
    n_fb = 0
    for path in ctx.paths_auto(module, func):
        last = path[-1]
        if last.kind != "return" or last.node.value is None:
            continue
        value = last.expand(last.node.value)
        if not (isinstance(value, ast.Tuple) and len(value.elts) == 2):
            continue
        coefs = value.elts[1]
        if not (isinstance(coefs, ast.List) and len(coefs.elts) == 1):
            continue
        if not (isinstance(coefs.elts[0], ast.Call) and not is_S(coefs.elts[0])):
            continue  # a kept input coefficient (accumulate form after one iteration), not the fall-back
        verdict, why = _zero_like_input(ctx, module, coefs.elts[0])
        if verdict is None:
            raise AnalysisError(f"remove_redundant_coefficients: fall-back coefficient {_txt(coefs.elts[0])[:80]} not recognised")
        n_fb += 1
        result.ob("the fall-back zero coefficient has the shape and dtype of the input coefficients", verdict,
                  module.loc(last.orig), _txt(coefs.elts[0])[:100])
        if not verdict:
            result.add(Finding(
                "R-CLEAN", module, "remove_redundant_coefficients", last.node,
                f"when every term is dropped the replacement coefficient is {_txt(coefs.elts[0])[:90]}: {why}; a result "
                f"whose terms all cancel (p - p, 0 * p, an all-zero selection) silently changes "
                f"{'shape' if 'shape' in why else 'dtype'}", construct="zero fall-back: shape/dtype"))
    ok = n_fb > 0
    result.ob("falls back to the zero polynomial when every term is dropped", ok, module.loc(func), "")
    if not ok:
        result.add(Finding("R-CLEAN", module, "remove_redundant_coefficients", func,
                           "no fall-back to a single zero term when all terms are dropped", construct="zero fall-back"))
    # clean_attributes rebuilds the polynomial in its own dtype (an empty coefficient list cannot carry it)
    cfunc = ctx.repo.function(modname, "clean_attributes")
    rebuilds = [c for c in calls_in(cfunc) if isinstance(c.func, ast.Attribute) and c.func.attr in ("from_attributes", "polynomial_from_attributes")]
    if not rebuilds:
        raise AnalysisError("clean_attributes: rebuilding constructor call not found")
    for call in rebuilds:
        dtype = kwarg(call, "dtype")
        pname = cfunc.args.args[0].arg
        ok = dtype is not None and U(dtype).endswith(".dtype") and pname in U(dtype)
        result.ob("clean_attributes rebuilds with dtype=<poly>.dtype", ok, module.loc(call), U(dtype) if dtype is not None else "missing")
        if not ok:
            result.add(Finding(
                "R-CLEAN", module, "clean_attributes", call,
                f"clean_attributes rebuilds the polynomial {'without dtype=' if dtype is None else 'with dtype=' + U(dtype)[:40]}: the "
                f"constructor then infers the dtype from the first coefficient, and falls back to int when there is none "
                f"(zero-size results of +, -, cumsum, ...)", construct="clean_attributes: dtype"))
    # remove_redundant_names
    func = ctx.repo.function(modname, "remove_redundant_names")
    assigns = [n for n in ast.walk(func) if isinstance(n, ast.Assign) and isinstance(n.targets[0], ast.Name)
               and isinstance(n.value, ast.Call) and (ctx.dotted(module, n.value.func) or "") in ("numpy.any", "numpy.all", "numpy.sum")]
    mask_var = assigns[0].targets[0].id if assigns else "?"
    ok = False
    text = ""
    if assigns:
        value = assigns[0].value
        text = U(value)
        inner = _any_call(ctx, module, value)
        axis = value.args[1] if isinstance(value, ast.Call) and len(value.args) > 1 else kwarg(value, "axis") if isinstance(value, ast.Call) else None
        ok = inner is not None and isinstance(inner, ast.Compare) and isinstance(inner.ops[0], ast.NotEq) \
            and isinstance(axis, ast.Constant) and axis.value == 0
        ok = ok or (inner is not None and isinstance(inner, ast.Name) and isinstance(axis, ast.Constant) and axis.value == 0)
    result.ob("a name is kept iff some exponent in its column is non-zero (any over axis 0)", ok, module.loc(func), text)
    if not ok:
        result.add(Finding("R-CLEAN", module, "remove_redundant_names", assigns[0] if assigns else func,
                           f"the used-name mask is '{text}', expected numpy.any(exponents != 0, 0)"))
    # fall-back: one name is switched on exactly when no name is used.  Tri-state on the condition under which an element
    # of the mask is set: 'no element of the mask is true' in any spelling is accepted, a condition over a slice of the
    # mask or an all() over the mask is known-wrong, no fall-back at all is a violation, anything else is unrecognised
    conds = []
    for node in ast.walk(func):
        if isinstance(node, ast.If):
            for stmt in node.body:
                if isinstance(stmt, ast.Assign) and isinstance(stmt.targets[0], ast.Subscript) \
                        and U(stmt.targets[0].value) == mask_var and isinstance(stmt.value, ast.Constant) and stmt.value.value is True:
                    conds.append((node.test, stmt))
        if isinstance(node, ast.AugAssign) and isinstance(node.op, ast.BitOr) and isinstance(node.target, ast.Subscript) \
                and U(node.target.value) == mask_var:
            conds.append((node.value, node))
        if isinstance(node, ast.Assign) and isinstance(node.targets[0], ast.Subscript) and U(node.targets[0].value) == mask_var \
                and isinstance(node.value, (ast.BoolOp, ast.BinOp)):
            parts = node.value.values if isinstance(node.value, ast.BoolOp) else [node.value.left, node.value.right]
            rest = [p2 for p2 in parts if U(p2) != U(node.targets[0])]
            if len(rest) == 1 and len(parts) == 2:
                conds.append((rest[0], node))

    def none_used(test) -> Optional[bool]:
        neg = False
        while isinstance(test, ast.UnaryOp) and isinstance(test.op, ast.Not):
            test, neg = test.operand, not neg
        if not isinstance(test, ast.Call):
            return None
        name = ctx.dotted(module, test.func) or ""
        arg = test.args[0] if test.args else None
        if arg is None:
            return None
        atext = U(arg)
        whole = atext == mask_var
        inverted = atext in (f"~{mask_var}", f"numpy.logical_not({mask_var})", f"numpy.invert({mask_var})")
        if name in ("numpy.any", "numpy.sum", "numpy.count_nonzero") and whole:
            return neg          # not any(mask)
        if name == "numpy.all" and inverted:
            return not neg      # all(~mask)
        if name in ("numpy.any", "numpy.all", "numpy.sum", "numpy.count_nonzero") and mask_var in atext:
            return False        # a slice of the mask, or all() over the mask: another condition
        return None

    if not conds:
        result.ob("at least one indeterminate always survives", False, module.loc(func), "")
        result.add(Finding("R-CLEAN", module, "remove_redundant_names", func,
                           "no fall-back keeping one indeterminate when no exponent is used", construct="one-name fall-back"))
    for test, stmt in conds:
        verdict = none_used(test)
        if verdict is None:
            raise AnalysisError(f"remove_redundant_names: fall-back condition not recognised: {U(test)[:80]}")
        result.ob("one indeterminate is switched on exactly when none is used", verdict, module.loc(stmt), U(test)[:80])
        if not verdict:
            result.add(Finding(
                "R-CLEAN", module, "remove_redundant_names", stmt,
                f"the fall-back that keeps one indeterminate is taken under '{U(test)[:80]}', which is not 'no name is used' "
                f"(not numpy.any(mask)): with three or more names of which one - not the first - is used, a redundant name "
                f"survives (or none does), so e.g. a differentiation variable given as a polynomial is no longer identified",
                construct="one-name fall-back"))
    # isconstant
    imod = ctx.repo.module("numpoly.poly_function.isconstant")
    ifunc = ctx.repo.function(imod.name, "isconstant")
    ok = _isconstant_verdict(ctx, imod, ifunc)
    if ok is None:
        raise AnalysisError("isconstant: neither the term loop nor an any()/all() over the terms was recognised")
    result.ob("isconstant is False exactly when a non-constant term has a non-zero coefficient", ok, imod.loc(ifunc), "")
    if not ok:
        result.add(Finding("R-CLEAN", imod, "isconstant", ifunc,
                           "isconstant no longer returns False exactly for 'numpy.any(exponent) and numpy.any(coefficient)' "
                           "(the constant term must be ignored, any non-zero coefficient of another term decides)",
                           construct="isconstant verdict"))
    result.floor = 6
    return result


def _zero_like_input(ctx, module, expr):
    """(True, '') zeros with shape and dtype of an input coefficient; (False, why) known-wrong; (None, '')."""
    if not (isinstance(expr, ast.Call) and not is_S(expr)):
        return None, ""
    name = ctx.dotted(module, expr.func) or ""
    short = name.split(".")[-1]
    if not name.startswith("numpy."):
        return None, ""
    if short in ("zeros_like", "empty_like", "ones_like", "full_like"):
        if short != "zeros_like" and not (short == "full_like" and len(expr.args) > 1 and isinstance(expr.args[1], ast.Constant)
                                          and expr.args[1].value == 0):
            return False, f"numpy.{short} does not produce zeros"
        if not expr.args or "coefficients" not in _txt(expr.args[0]):
            return None, ""
        for kw in expr.keywords:
            if kw.arg == "dtype" and not (_txt(kw.value).endswith(".dtype") and "coefficients" in _txt(kw.value)):
                return False, f"its dtype is overridden by dtype={_txt(kw.value)[:40]}"
            if kw.arg == "shape" and not (_txt(kw.value).endswith(".shape") and "coefficients" in _txt(kw.value)):
                return False, f"its shape is overridden by shape={_txt(kw.value)[:40]}"
        return True, ""
    if short in ("zeros", "empty", "ones", "full"):
        if short in ("empty", "ones"):
            return False, f"numpy.{short} does not produce zeros"
        shape = expr.args[0] if expr.args else kwarg(expr, "shape")
        dtype = kwarg(expr, "dtype")
        if dtype is None:
            idx = 2 if short == "full" else 1
            dtype = expr.args[idx] if len(expr.args) > idx else None
        if shape is None:
            return None, ""
        if not (_txt(shape).endswith(".shape") and "coefficients" in _txt(shape)):
            return False, f"its shape is {_txt(shape)[:40]}, not the shape of the input coefficients"
        if dtype is None:
            return False, "no dtype is given (float64), the dtype of the input coefficients is lost"
        if not (_txt(dtype).endswith(".dtype") and "coefficients" in _txt(dtype)):
            return False, f"its dtype is {_txt(dtype)[:40]}, not the dtype of the input coefficients"
        return True, ""
    return None, ""


def _term_formula(ctx, module, node, exp_name, coef_name):
    """Boolean function of (E, C) = (some exponent of the term non-zero, some coefficient of the term
    non-zero) that ``node`` computes, or None."""
    if isinstance(node, ast.BoolOp):
        parts = [_term_formula(ctx, module, v, exp_name, coef_name) for v in node.values]
        if any(p is None for p in parts):
            return None
        if isinstance(node.op, ast.And):
            return lambda e, c: all(p(e, c) for p in parts)
        return lambda e, c: any(p(e, c) for p in parts)
    if isinstance(node, ast.UnaryOp) and isinstance(node.op, ast.Not):
        inner = _term_formula(ctx, module, node.operand, exp_name, coef_name)
        return None if inner is None else (lambda e, c: not inner(e, c))
    if isinstance(node, ast.Call) and not is_S(node) and node.args:
        name = ctx.dotted(module, node.func)
        arg = node.args[0]
        which = None
        if name in ("numpy.any", "numpy.count_nonzero"):
            if isinstance(arg, ast.Compare) and len(arg.ops) == 1 and isinstance(arg.ops[0], ast.NotEq) \
                    and isinstance(arg.comparators[0], ast.Constant) and arg.comparators[0].value == 0:
                arg = arg.left
            if isinstance(arg, ast.Name):
                which = arg.id
            if which == exp_name:
                return lambda e, c: e
            if which == coef_name:
                return lambda e, c: c
        if name == "numpy.all" and isinstance(arg, ast.Compare) and len(arg.ops) == 1 and isinstance(arg.ops[0], ast.Eq) \
                and isinstance(arg.comparators[0], ast.Constant) and arg.comparators[0].value == 0 and isinstance(arg.left, ast.Name):
            if arg.left.id == exp_name:
                return lambda e, c: not e
            if arg.left.id == coef_name:
                return lambda e, c: not c
    return None


def _isconstant_verdict(ctx, imod, ifunc):
    """True: False is returned exactly when some term has E and C; False: a different condition; None: unknown."""
    table = [(e, c) for e in (False, True) for c in (False, True)]
    # (a) reduction over the terms:  not any(P for e, c in zip(..))  /  all(Q for ..)
    returns = [n for n in ast.walk(ifunc) if isinstance(n, ast.Return)]
    if len(returns) == 1 and returns[0].value is not None:
        value = returns[0].value
        negated = False
        while isinstance(value, ast.UnaryOp) and isinstance(value.op, ast.Not):
            negated, value = not negated, value.operand
        if isinstance(value, ast.Call) and isinstance(value.func, ast.Name) and value.func.id in ("any", "all") \
                and len(value.args) == 1 and isinstance(value.args[0], (ast.GeneratorExp, ast.ListComp)):
            comp = value.args[0]
            gen = comp.generators[0]
            if len(comp.generators) == 1 and not gen.ifs and isinstance(gen.iter, ast.Call) and isinstance(gen.iter.func, ast.Name) \
                    and gen.iter.func.id == "zip" and isinstance(gen.target, ast.Tuple) and len(gen.target.elts) == 2 \
                    and all(isinstance(e, ast.Name) for e in gen.target.elts):
                order = [U(a).rsplit(".", 1)[-1] for a in gen.iter.args]
                if sorted(order) != ["coefficients", "exponents"]:
                    return None
                names = dict(zip(order, (e.id for e in gen.target.elts)))
                formula = _term_formula(ctx, imod, comp.elt, names["exponents"], names["coefficients"])
                if formula is None:
                    return None
                # any(P): True iff some term has P ; all(Q): False iff some term has not Q
                if value.func.id == "any":
                    if not negated:
                        return False  # isconstant would be True when a term satisfies P
                    return all(bool(formula(e, c)) == (e and c) for e, c in table)
                if negated:
                    return False
                return all((not formula(e, c)) == (e and c) for e, c in table)
        if not isinstance(value, ast.Constant):
            return None
    # (b) loop over the terms with constant verdicts
    verdicts = {}
    for path in ctx.paths(imod, ifunc, max_iter=1):
        last = path[-1]
        if last.kind == "return" and isinstance(last.node.value, ast.Constant):
            facts = [(U(strip_tags(s.expand(s.node))), s.data) for s in path if s.kind == "assume"]
            verdicts.setdefault(last.node.value.value, []).append(facts)
        elif last.kind == "return":
            return None
    if False not in verdicts and True not in verdicts:
        return None
    ok = False
    for facts in verdicts.get(False, []):
        # returns False only for: exponent non-zero (any(exponent) true) and any(coefficient) true
        has_exp = any("exponents" in t and "numpy.any(" in t and ((pol is True and not t.startswith("not ")) or (pol is False and t.startswith("not "))) for t, pol in facts)
        has_coef = any("coefficients" in t and "numpy.any(" in t and pol is True and not t.startswith("not ") for t, pol in facts)
        ok = has_exp and has_coef
        if not ok:
            break
    return ok and True in verdicts


def run_power(ctx) -> RuleResult:
    result = RuleResult(
        "R-POWER",
        "power with a scalar exponent n starts from the constant one and multiplies by the base exactly "
        "n times (range(int n)); the base and exponent are the first and second operand",
    )
    modname = "numpoly.array_function.power"
    module = ctx.repo.module(modname)
    func = ctx.repo.function(modname, "power")
    params = [a.arg for a in func.args.args]
    found = False
    for path in ctx.paths(module, func, max_iter=1):
        iters = [s for s in path if s.kind == "iter" and isinstance(s.node, ast.For)]
        if not iters:
            continue
        step = iters[0]
        it = step.expand(step.node.iter)
        if not (isinstance(it, ast.Call) and isinstance(it.func, ast.Name) and it.func.id == "range"):
            continue
        found = True
        where = module.loc(step.node)
        text = _txt(it)
        ok = len(it.args) == 1 and ("π" + params[1]) in _txt(it.args[0]) and not any(
            isinstance(n2, ast.BinOp) for n2 in walk_shared(it.args[0]))
        result.ob("the base is multiplied exactly <exponent> times", ok, where, text[:100])
        if not ok:
            result.add(Finding("R-POWER", module, "power", step.node.iter,
                               f"the multiplication loop runs over {text[:80]}, not range(<exponent>)"))
        acc = None
        for stmt in step.node.body:
            if isinstance(stmt, ast.Assign) and isinstance(stmt.targets[0], ast.Name):
                acc = stmt.targets[0].id
        init = step.vars.get(acc) if acc else None
        ok = init is not None and "numpy.ones(" in _txt(init) and "[(0,)]" in _txt(init).replace(" ", "")
        if ok:
            ones = [c for c in calls_in(init) if (ctx.dotted(module, c.func) or "") == "numpy.ones"]
            ok = bool(ones) and ones[0].args and _txt(ones[0].args[0]).endswith(".shape") and ("π" + params[0]) in _txt(ones[0].args[0])
        result.ob("the product starts from the constant polynomial one", bool(ok), where, _txt(init)[:80] if init is not None else "")
        if not ok:
            result.add(Finding("R-POWER", module, "power", step.node,
                               "the running product is not initialised with the constant one of the base's shape (x ** 0 must have the shape of x)", construct="power: init"))
        if ok:
            dtype = kwarg(ones[0], "dtype") or (ones[0].args[1] if len(ones[0].args) > 1 else None)
            text_d = _txt(dtype) if dtype is not None else ""
            from_base = ("π" + params[0]) in text_d and "dtype" in text_d
            constant = dtype is None or isinstance(dtype, ast.Constant) or (
                isinstance(dtype, (ast.Name, ast.Attribute)) and not any(
                    isinstance(n2, ast.Name) and n2.id.startswith("π") for n2 in walk_shared(dtype)))
            if not from_base and not constant:
                raise AnalysisError(f"power: dtype of the initial one not recognised: {text_d[:60]}")
            result.ob("the initial one has the coefficient dtype of the base", from_base, where, text_d[:60])
            if not from_base:
                result.add(Finding(
                    "R-POWER", module, "power", ones[0],
                    f"the constant one that seeds the product is created with dtype={text_d or 'float64 (default)'}, not the "
                    f"base's dtype: it takes part in the dtype promotion of every multiplication, so x ** 0 and powers of "
                    f"narrow/unsigned/bool bases come out in another dtype (and no longer wrap like numpy)",
                    construct="power: dtype of the initial one"))
        body_calls = [c for s in step.node.body for c in calls_in(s) if (ctx.dotted(module, c.func) or "").endswith(".multiply")]
        ok = len(body_calls) == 1 and len(body_calls[0].args) >= 2 and U(body_calls[0].args[0]) == acc and params[0] in U(step.expand(body_calls[0].args[1]))
        result.ob("each step multiplies the running product by the base", ok, where, "")
        if not ok:
            result.add(Finding("R-POWER", module, "power", step.node,
                               "the loop body is not 'out = multiply(out, x1)'", construct="power: step"))
        break
    if not found:
        raise AnalysisError("power: scalar-exponent loop not recognised")
    result.floor = 3
    return result


def run_carrier(ctx) -> RuleResult:
    result = RuleResult(
        "R-CARRIER",
        "call(): the arrays that carry the broadcast shape and seed every term (numpy.ones / numpy.zeros) "
        "are created with the platform integer dtype, so that narrow argument dtypes are promoted before "
        "factors of different indeterminates are multiplied",
    )
    modname = "numpoly.poly_function.call"
    module = ctx.repo.module(modname)
    func = ctx.repo.function(modname, "call")
    n = 0
    for call in calls_in(func):
        name = ctx.dotted(module, call.func)
        if name not in ("numpy.ones", "numpy.zeros"):
            continue
        n += 1
        dtype = kwarg(call, "dtype") or (call.args[1] if len(call.args) > 1 else None)
        text = U(dtype) if dtype is not None else "float (default)"
        ok = dtype is not None and text in ("int", "numpy.int64", "'i8'", '"i8"', "numpy.int_", "numpy.intp", "'int64'",
                                            '"int64"', "'int'", '"int"', "numpy.dtype(int)", "numpy.longlong")
        result.ob(f"call: {U(call)[:60]} carries the integer dtype", ok, module.loc(call), text)
        if not ok:
            result.add(Finding(
                "R-CARRIER", module, "call", call,
                f"the broadcast carrier {U(call)[:60]} has dtype {text}: multiplying it into the terms no longer "
                f"promotes narrow argument dtypes (int8, float16, ...), so the value depends on the type carrying an argument"))
    if n < 2:
        raise AnalysisError("call: broadcast carriers (numpy.ones / numpy.zeros) not recognised")
    result.floor = 2
    return result


def run_prodaxes(ctx) -> RuleResult:
    result = RuleResult(
        "R-PRODAXES",
        "prod over an axis sequence: each axis is reduced and its singleton re-inserted at the same position "
        "within one traversal of the same sequence",
    )
    modname = "numpoly.array_function.prod"
    module = ctx.repo.module(modname)
    func = ctx.repo.raw_function(modname, "prod")
    n = 0
    seen = set()
    for path in ctx.paths_auto(module, func):
        reduce_src = []
        insert_src = []
        for step in path:
            for raw in step_exprs(step):
                for node in ast.walk(raw):
                    if isinstance(node, ast.Call) and (ctx.dotted(module, node.func) or "").endswith("._prod"):
                        axis = kwarg(node, "axis") or (node.args[1] if len(node.args) > 1 else None)
                        if axis is not None:
                            exp = step.expand(axis)
                            if is_S(exp, "elem"):
                                reduce_src.append(exp)
                    if isinstance(node, ast.BinOp) and isinstance(node.op, ast.Mult) and "slice(None)" in U(node.left):
                        exp = step.expand(node.right)
                        if is_S(exp, "elem"):
                            insert_src.append(exp)
        if not reduce_src or not insert_src:
            continue
        key = (tuple(_txt(e) for e in reduce_src), tuple(_txt(e) for e in insert_src))
        if key in seen:
            continue
        seen.add(key)
        n += 1
        same_seq = [_txt(e.args[0]) for e in reduce_src] == [_txt(e.args[0]) for e in insert_src]
        same_iter = [U(e.args[1]) for e in reduce_src] == [U(e.args[1]) for e in insert_src]
        ok = same_seq and same_iter
        result.ob("each reduced axis is re-inserted in the same iteration of the same sequence", ok,
                  module.loc(func), f"{key[0][:1]} / {key[1][:1]}")
        if not ok:
            result.add(Finding(
                "R-PRODAXES", module, "prod", func,
                f"axes are reduced following {key[0][0][:60]} but the singleton axes are re-inserted following "
                f"{key[1][0][:60]}" + ("" if same_seq else " (different sequences)")
                + (" in a separate traversal" if same_seq and not same_iter else "")
                + ": for a non-ascending axis tuple with keepdims the result has its axes in the wrong places",
                derivation=describe_path(path), construct="prod: axis sequence reduce/re-insert"))
    if n == 0:
        raise AnalysisError("prod: axis-sequence branch not recognised")
    # _prod: the leading-slice tuple  (slice(None),) * axis  needs a non-negative axis
    if "_prod" in module.functions:
        pfunc = ctx.repo.raw_function(modname, "_prod")
        pparams = [a.arg for a in pfunc.args.args]
        seen_mul = set()
        for path in ctx.paths_auto(module, pfunc):
            for step in path:
                for raw in step_exprs(step):
                    for node in ast.walk(raw):
                        if isinstance(node, ast.BinOp) and isinstance(node.op, ast.Mult) and "slice(None)" in U(node.left) \
                                and (id(node), id(step.facts)) not in seen_mul:
                            seen_mul.add((id(node), id(step.facts)))
                            count = step.expand(node.right)
                            if not (is_param(count) and count.id[1:] in pparams):
                                result.ob("_prod: the slice tuple is repeated by a normalised axis", True,
                                          module.loc(step.orig), _txt(count)[:60])
                                continue
                            nonneg = any(pol is False and isinstance(t, ast.Compare) and len(t.ops) == 1
                                         and isinstance(t.ops[0], ast.Lt) and is_param(t.left, count.id[1:])
                                         and isinstance(t.comparators[0], ast.Constant) and t.comparators[0].value == 0
                                         for t, pol in step.fact_items())
                            result.ob("_prod: the slice tuple is repeated by a non-negative axis", nonneg,
                                      module.loc(step.orig), _txt(count)[:60])
                            if not nonneg:
                                result.add(Finding(
                                    "R-PRODAXES", module, "_prod", node,
                                    f"'(slice(None),) * {U(node.right)}' uses the caller's axis as it came in: for a negative axis the "
                                    f"tuple is empty, so slices are taken along axis 0 while the loop count comes from "
                                    f"a.shape[axis] - normalise first (axis + a.ndim if axis < 0 else axis)",
                                    derivation=describe_path(path), construct="_prod: negative axis"))
    result.floor = 1
    return result


def run_registrar(ctx) -> RuleResult:
    result = RuleResult(
        "R-REGISTRAR",
        "the registration decorators of numpoly/dispatch.py enter *every* target into every table they "
        "are responsible for (assignments inside the loop over the targets) and return the function unchanged",
    )
    module = ctx.repo.module("numpoly.dispatch")
    wants = {
        "implements_function": {"FUNCTION_COLLECTION"},
        "implements_ufunc": {"UFUNC_COLLECTION"},
        "implements": {"FUNCTION_COLLECTION", "UFUNC_COLLECTION"},
    }
    for name, tables in wants.items():
        func = ctx.repo.function(module.name, name)
        vararg = func.args.vararg.arg if func.args.vararg else None
        inner = [n for n in func.body if isinstance(n, ast.FunctionDef)]
        if vararg is None or len(inner) != 1:
            raise AnalysisError(f"dispatch.{name}: decorator shape not recognised")
        deco = inner[0]
        fparam = deco.args.args[0].arg
        loops = [n for n in ast.walk(deco) if isinstance(n, ast.For) and isinstance(n.iter, ast.Name) and n.iter.id == vararg]
        written = set()
        for loop in loops:
            target_name = loop.target.id if isinstance(loop.target, ast.Name) else None
            # plain local aliases inside the loop (x = y), e.g. the parameter bindings of an inlined helper
            alias = {}
            for node in ast.walk(loop):
                if isinstance(node, ast.Assign) and len(node.targets) == 1 and isinstance(node.targets[0], ast.Name) \
                        and isinstance(node.value, ast.Name):
                    alias[node.targets[0].id] = node.value.id

            def res(name):
                for _ in range(6):
                    if name not in alias:
                        break
                    name = alias[name]
                return name

            for node in ast.walk(loop):
                if isinstance(node, ast.Assign) and isinstance(node.targets[0], ast.Subscript):
                    sub = node.targets[0]
                    if isinstance(sub.value, ast.Name) and isinstance(sub.slice, ast.Name) and res(sub.slice.id) == target_name \
                            and isinstance(node.value, ast.Name) and res(node.value.id) == fparam:
                        written.add(res(sub.value.id))
        outside = [
            node for node in ast.walk(deco)
            if isinstance(node, ast.Assign) and isinstance(node.targets[0], ast.Subscript)
            and isinstance(node.targets[0].value, ast.Name) and node.targets[0].value.id in tables
            and not any(node in list(ast.walk(loop)) for loop in loops)
        ]
        ok = tables <= written and not outside
        result.ob(f"{name}: every target is entered into {sorted(tables)}", ok, module.loc(func),
                  f"inside loop: {sorted(written)}; outside loop: {len(outside)}")
        if not ok:
            missing = sorted(tables - written)
            result.add(Finding(
                "R-REGISTRAR", module, name, outside[0] if outside else deco,
                f"{name}: " + (f"table(s) {missing} are not filled inside the loop over the targets" if missing else "")
                + (f"; an assignment to {U(outside[0].targets[0])} sits outside the loop, so only the last target "
                   f"of a multi-target registration is entered" if outside else ""),
                construct=f"{name}: registration loop"))
        rets = [n for n in ast.walk(deco) if isinstance(n, ast.Return) and _owner_func(n) is deco]
        ok = bool(rets) and all(isinstance(r.value, ast.Name) and r.value.id == fparam for r in rets)
        result.ob(f"{name}: the decorated function is returned unchanged", ok, module.loc(deco), "")
        if not ok:
            result.add(Finding("R-REGISTRAR", module, name, deco,
                               f"{name} does not return the decorated function itself: numpoly.<f> and the registry "
                               f"entry would be different objects", construct=f"{name}: return"))
    result.floor = 6
    return result


def _owner_func(node):
    cur = getattr(node, "_parent", None)
    while cur is not None and not isinstance(cur, (ast.FunctionDef, ast.AsyncFunctionDef)):
        cur = getattr(cur, "_parent", None)
    return cur


def run_outer(ctx) -> RuleResult:
    result = RuleResult(
        "R-OUTER",
        "outer flattens both operands (numpy.outer semantics) before the broadcasting product: the "
        "first becomes a column, the second a row",
    )
    modname = "numpoly.array_function.outer"
    module = ctx.repo.module(modname)
    func = ctx.repo.function(modname, "outer")
    params = [a.arg for a in func.args.args]
    n = 0
    for path in ctx.paths(module, func):
        last = path[-1]
        if last.kind != "return":
            continue
        value = last.expand(last.node.value)
        if not (isinstance(value, ast.Call) and (ctx.dotted(module, value.func) or "").endswith(".multiply") and len(value.args) >= 2):
            raise AnalysisError("outer: does not return multiply(a, b)")
        n += 1
        for idx, (arg, pname, col) in enumerate(((value.args[0], params[0], True), (value.args[1], params[1], False))):
            text = _txt(arg)
            flat = "ravel(" in text or "flatten(" in text or "reshape(-1" in text or ".flat" in text
            owner = ("π" + pname) in text and ("π" + params[1 - idx]) not in text.split(".ravel()")[-1]
            result.ob(f"outer: operand {idx} is flattened", flat, module.loc(last.orig), text[-60:])
            if not flat:
                result.add(Finding("R-OUTER", module, "outer", last.node,
                                   f"operand '{pname}' is not flattened before the product ({text[-60:]}): for inputs of "
                                   f"two or more dimensions the result is not numpy.outer's (size_a, size_b) layout",
                                   construct=f"outer: operand {pname}"))
            sl = arg.slice if isinstance(arg, ast.Subscript) else None
            ok = isinstance(sl, ast.Tuple) and len(sl.elts) == 2 and (
                (col and isinstance(sl.elts[0], ast.Slice) and "newaxis" in _txt(sl.elts[1]))
                or ((not col) and "newaxis" in _txt(sl.elts[0]) and isinstance(sl.elts[1], ast.Slice))
            )
            result.ob(f"outer: operand {idx} becomes a {'column' if col else 'row'}", bool(ok), module.loc(last.orig), "")
            if flat and not ok:
                result.add(Finding("R-OUTER", module, "outer", last.node,
                                   f"operand '{pname}' is not reshaped to a {'column [:, newaxis]' if col else 'row [newaxis, :]'}",
                                   construct=f"outer: axis of {pname}"))
    if n == 0:
        raise AnalysisError("outer: no return path")
    result.floor = 4
    return result


NONE_SENSITIVE = {"shape", "newshape", "axis", "axes", "dimensions", "start", "stop", "repeats", "reps", "offset",
                  "k", "n", "decimals", "indices_or_sections", "axis1", "axis2", "source", "destination", "to_end",
                  "to_begin", "prepend", "append", "fill_value", "cross_truncation"}


def run_none(ctx) -> RuleResult:
    result = RuleResult(
        "R-NONE",
        "parameters for which 0 / () / [] are legitimate values (shape, axis, dimensions, offsets, ...) are "
        "tested with 'is None', never by truthiness ('x or default', 'if not x', 'x if x else ...')",
    )
    n = 0
    for module, qual, func in ctx.repo.all_functions():
        if module.is_pyx:
            continue
        args = func.args
        defaults = {}
        pos = args.posonlyargs + args.args
        for arg, default in zip(pos[len(pos) - len(args.defaults):], args.defaults):
            defaults[arg.arg] = default
        for arg, default in zip(args.kwonlyargs, args.kw_defaults):
            if default is not None:
                defaults[arg.arg] = default
        watch = {name for name, default in defaults.items()
                 if name in NONE_SENSITIVE and isinstance(default, ast.Constant) and default.value is None}
        if not watch:
            continue
        flagged = set()

        def raw_param(step, name_node):
            value = step.vars.get(name_node.id)
            return is_param(value, name_node.id)

        for path in ctx.paths_auto(module, func):
            for step in path:
                tests = []
                if step.kind == "assume":
                    node = step.node
                    while isinstance(node, ast.UnaryOp) and isinstance(node.op, ast.Not):
                        node = node.operand
                    parts = node.values if isinstance(node, ast.BoolOp) else [node]
                    for part in parts:
                        while isinstance(part, ast.UnaryOp) and isinstance(part.op, ast.Not):
                            part = part.operand
                        tests.append(part)
                for raw in step_exprs(step):
                    for sub in ast.walk(raw):
                        if isinstance(sub, ast.BoolOp) and step.kind != "assume":
                            tests.extend(sub.values[:-1] if isinstance(sub.op, ast.Or) else sub.values)
                for test in tests:
                    if isinstance(test, ast.Name) and test.id in watch and raw_param(step, test):
                        key = (test.id, getattr(step.orig, "lineno", 0))
                        if key in flagged:
                            continue
                        flagged.add(key)
                        n += 1
                        result.add(Finding(
                            "R-NONE", module, qual, step.node,
                            f"parameter '{test.id}' (default None) is tested by truthiness: an explicit {test.id}=0 / () / [] "
                            f"is treated like an omitted argument", derivation=describe_path(path)))
        for name in sorted(watch):
            result.ob(f"{module.name}.{qual}: '{name}' never tested by truthiness", not any(
                f.function == qual and f.relpath == module.relpath and f"'{name}'" in f.message for f in result.findings),
                module.loc(func), "")
    result.floor = 10
    return result


def run_calltail(ctx) -> RuleResult:
    result = RuleResult(
        "R-CALLTAIL",
        "call(): a non-constant result is re-aligned with the evaluated polynomial's indeterminates by "
        "align_indeterminants (merging name sets), a constant one collapses through tonumpy",
    )
    modname = "numpoly.poly_function.call"
    module = ctx.repo.module(modname)
    func = ctx.repo.function(modname, "call")
    n = 0
    seen = set()
    for path in ctx.paths(module, func, max_iter=1):
        last = path[-1]
        if last.kind != "return" or last.node.value is None:
            continue
        facts = {(_txt(node), pol) for node, pol in last.fact_items()}
        is_poly = any(t.startswith("isinstance(") and "ndpoly" in t and pol is True and "term" not in t.split(",")[0] for t, pol in facts)
        constant = None
        for t, pol in facts:
            if t.endswith(".isconstant()"):
                constant = pol
        if constant is None:
            continue
        value = last.expand(last.node.value)
        text = _txt(value)
        key = (constant, text[:60])
        if key in seen:
            continue
        seen.add(key)
        n += 1
        if constant:
            ok = text.endswith(".tonumpy()")
            result.ob("call: constant result collapses to an ndarray", ok, module.loc(last.orig), text[-40:])
            if not ok:
                result.add(Finding("R-CALLTAIL", module, "call", last.node,
                                   "a constant polynomial result is not converted with tonumpy()", construct="call: constant tail"))
        else:
            ok = False
            if isinstance(value, ast.Subscript) and isinstance(value.value, ast.Call) and isinstance(value.slice, ast.Constant) \
                    and value.slice.value == 0:
                call = value.value
                name = ctx.dotted(module, call.func) or ""
                ok = name.endswith("align_indeterminants") and len(call.args) == 2 and ".indeterminants" in _txt(call.args[1])
            result.ob("call: non-constant result is re-aligned by align_indeterminants(out, poly.indeterminants)[0]", ok,
                      module.loc(last.orig), text[:80])
            if not ok:
                result.add(Finding(
                    "R-CALLTAIL", module, "call", last.node,
                    f"the substituted polynomial is returned as {text[:80]}: without align_indeterminants the exponent "
                    f"columns are re-labelled by position instead of merging the name sets (wrong variables after a "
                    f"partial evaluation under retain_names=False)", construct="call: non-constant tail"))
    if n < 2:
        raise AnalysisError("call: result tail not recognised")
    result.floor = 2
    return result


def run_bindex(ctx) -> RuleResult:
    result = RuleResult(
        "R-BINDEX",
        "bindex: the inverted ('I') ordering reverses the sequence of exponent tuples only (rows), never "
        "the components inside a tuple",
    )
    modname = "numpoly.utils.bindex"
    module = ctx.repo.module(modname)
    func = ctx.repo.function(modname, "bindex")
    n = 0
    for path in ctx.paths(module, func):
        last = path[-1]
        if last.kind != "return" or last.node.value is None:
            continue
        value = last.expand(last.node.value)
        text = _txt(value)
        n += 1
        bad = None
        for call in calls_in(value):
            name = ctx.dotted(module, call.func) or ""
            if name in ("numpy.flip",):
                axis = kwarg(call, "axis") or (call.args[1] if len(call.args) > 1 else None)
                if not (isinstance(axis, ast.Constant) and axis.value == 0):
                    bad = f"numpy.flip without axis=0 ({U(call)[:50]}) also reverses the components of every tuple"
            if name in ("numpy.fliplr",):
                bad = "numpy.fliplr reverses the components"
        for node in walk_shared(value):
            if isinstance(node, ast.Subscript) and isinstance(node.slice, ast.Tuple):
                for elt in node.slice.elts[1:]:
                    if isinstance(elt, ast.Slice) and isinstance(elt.step, ast.UnaryOp):
                        bad = "the component axis is reversed as well"
        result.ob("bindex returns the glexindex rows, possibly reversed as a whole", bad is None, module.loc(last.orig), text[:80])
        if bad:
            result.add(Finding("R-BINDEX", module, "bindex", last.node, bad))
        ok = "glexindex(" in text
        if not ok:
            raise AnalysisError("bindex no longer returns glexindex output")
    if n == 0:
        raise AnalysisError("bindex: no return")
    result.floor = 1
    return result


def run_ranksel(ctx) -> RuleResult:
    """amax/amin: ``proxy`` maps position -> rank, the reduction returns *ranks*; the element of rank r sits at
    position ``argsort(proxy.ravel())[r]``.  Fetching by a boolean mask returns position order and loses the
    pairing with the reduced ranks as soon as there is more than one of them (axis given)."""
    result = RuleResult(
        "R-RANKSEL",
        "amax/amin fetch the element for every reduced rank through the inverse of the proxy permutation "
        "(flat polynomial indexed by argsort(proxy.ravel())[ranks]); a boolean-mask selection re-ordered by a "
        "permutation computed from the ranks alone is known-wrong (position order is not rank order)",
    )
    n = 0
    for fname in ("amax", "amin"):
        modname = f"numpoly.array_function.{fname}"
        module = ctx.repo.module(modname)
        func = ctx.repo.function(modname, fname)
        for path in ctx.paths(module, func):
            last = path[-1]
            if last.kind != "return" or last.node.value is None:
                continue
            value = strip_tags(last.expand(last.node.value))
            proxies = [c for c in calls_in(value) if (ctx.dotted(module, c.func) or "").endswith("sortable_proxy")]
            if not proxies:
                raise AnalysisError(f"{fname}: the returned value is not derived from sortable_proxy(...)")
            ptxt = U(proxies[0])
            ranks = [c for c in calls_in(value)
                     if (ctx.dotted(module, c.func) or "") in ("numpy.amax", "numpy.amin", "numpy.max", "numpy.min")
                     and c.args and U(c.args[0]) == ptxt]
            if not ranks:
                raise AnalysisError(f"{fname}: no numpy reduction of the proxy found in the returned value")
            rtxt = U(ranks[0])
            want = "numpy." + fname
            got = ctx.dotted(module, ranks[0].func)
            data = value
            if isinstance(value, ast.Call) and (ctx.dotted(module, value.func) or "").endswith(".reshape") and value.args:
                data = value.args[0]
            # walk down the chain of subscripts:  base[i1][i2]...
            indices = []
            base = data
            while isinstance(base, ast.Subscript):
                indices.append(base.slice)
                base = base.value
            indices.reverse()
            n += 1
            where = module.loc(last.orig)
            if not indices:
                raise AnalysisError(f"{fname}: returned data is not an indexed polynomial: {U(data)[:80]}")
            flat_base = any(s in U(base) for s in (".ravel()", ".flatten()", ".reshape(-1)", "numpy.ravel("))
            first = U(indices[0])
            inverse_forms = [f"numpy.argsort({ptxt}.ravel())", f"numpy.argsort({ptxt}.flatten())",
                             f"numpy.argsort({ptxt}.reshape(-1))", f"numpy.argsort(numpy.ravel({ptxt}))",
                             f"{ptxt}.ravel().argsort()", f"{ptxt}.flatten().argsort()"]
            inverse = len(indices) == 1 and flat_base and any(
                first.startswith(form + "[") and rtxt in first[len(form):] for form in inverse_forms)
            mask = "numpy.isin(" in first or (isinstance(indices[0], ast.Compare))
            rest_plain = all(ptxt not in U(idx).replace(rtxt, "") for idx in indices[1:])
            ok = inverse
            result.ob(f"{fname}: element of every reduced rank fetched through argsort(proxy.ravel())", ok, where,
                      first[:80].replace(ptxt, "<proxy>").replace(rtxt.replace(ptxt, "<proxy>"), "<ranks>"))
            if ok:
                continue
            if mask and rest_plain:
                result.add(Finding(
                    "R-RANKSEL", module, fname, last.node,
                    f"'{fname}' selects the result elements with a boolean mask over the proxy (elements come back in "
                    f"position order) and re-orders them with a permutation computed from the reduced ranks alone; "
                    f"the pairing rank -> element is lost whenever the reduction returns more than one rank "
                    f"(axis given), e.g. {fname}([[1,5,3],[4,2,6]], axis=0): index the flat polynomial with "
                    f"argsort(proxy.ravel())[ranks] instead",
                    derivation=describe_path(path), construct=f"{fname}: mask selection re-ordered by ranks"))
            elif len(indices) == 1 and flat_base and first.replace(" ", "").startswith(rtxt.replace(" ", "")):
                result.add(Finding(
                    "R-RANKSEL", module, fname, last.node,
                    f"'{fname}' uses the reduced ranks as positions of the flat polynomial; proxy maps position -> rank, "
                    f"so the position of rank r is argsort(proxy.ravel())[r]",
                    derivation=describe_path(path), construct=f"{fname}: ranks used as positions"))
            else:
                raise AnalysisError(f"{fname}: selection idiom not recognised: {U(data)[:160].replace(ptxt, '<proxy>')}")
            if got != want and got not in ("numpy.max", "numpy.min"):
                pass
    if n == 0:
        raise AnalysisError("amax/amin: no return path")
    result.floor = 2
    return result
