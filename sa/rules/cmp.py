"""R-CMP - the comparison functions instantiate one template (C07).

Ordering functions: walk the aligned terms in ascending glexsort order and
overwrite the verdict, where the two coefficients differ, with the verdict of
*the ufunc the function is registered for*.  maximum/minimum: same walk with
> / <.  equal / not_equal / isclose / allclose: a fold over *all* aligned
columns with the matching combiner.
"""
from __future__ import annotations

import ast
from typing import List, Optional

from .. import AnalysisError
from ..paths import U, describe_path, is_S, strip_tags, walk_shared
from ..report import Finding, RuleResult
from .common import calls_in, is_param, kwarg, source_params, step_exprs

ORDERING = {"greater": "less", "greater_equal": "less_equal", "less": "greater", "less_equal": "greater_equal"}
GLEXSORT = "numpoly.utils.glexsort.glexsort"


def _txt(expr) -> str:
    return U(strip_tags(expr))


def _conjuncts(expr) -> List[ast.AST]:
    if isinstance(expr, ast.BinOp) and isinstance(expr.op, ast.BitAnd):
        return _conjuncts(expr.left) + _conjuncts(expr.right)
    return [expr]


def _is_neq(ctx, module, expr, p0, p1) -> bool:
    """expr is ``c1[idx] != c2[idx]`` between columns of the two operands."""
    if isinstance(expr, ast.Compare) and len(expr.ops) == 1 and isinstance(expr.ops[0], ast.NotEq):
        a = set(source_params(ctx, module, expr.left))
        b = set(source_params(ctx, module, expr.comparators[0]))
        return (p0 in a and p1 in b) or (p1 in a and p0 in b)
    if isinstance(expr, ast.Call) and not is_S(expr) and ctx.dotted(module, expr.func) == "numpy.not_equal" and len(expr.args) >= 2:
        a = set(source_params(ctx, module, expr.args[0]))
        b = set(source_params(ctx, module, expr.args[1]))
        return (p0 in a and p1 in b) or (p1 in a and p0 in b)
    return False


def _glex_loop_steps(ctx, module, path):
    """Index of the first 'iter' step of a loop over glexsort(...) and its For node."""
    for idx, step in enumerate(path):
        if step.kind == "iter" and isinstance(step.node, ast.For):
            it = step.expand(step.node.iter)
            if isinstance(it, ast.Call) and not is_S(it) and ctx.dotted(module, it.func) == GLEXSORT:
                return idx, step.node, it
            # reversed / sliced glexsort: report
            for sub in walk_shared(it):
                if isinstance(sub, ast.Call) and not is_S(sub) and ctx.dotted(module, sub.func) == GLEXSORT:
                    return idx, step.node, it
    return None


def _check_walk(ctx, result, module, func, name, expect_callee, expect_op):
    """Shared part: the ascending glexsort walk with masked overwrite."""
    params = [a.arg for a in func.args.posonlyargs + func.args.args]
    p0, p1 = params[0], params[1]
    paths = ctx.paths(module, func, max_iter=1)
    analysed = 0
    for path in paths:
        found = _glex_loop_steps(ctx, module, path)
        if found is None:
            # a path on which the verdict is overwritten term by term in some other order
            for step in path:
                if step.kind == "iter" and isinstance(step.node, ast.For) and any(
                        isinstance(st, ast.Assign) and isinstance(st.targets[0], ast.Subscript)
                        for st in ast.walk(step.node)):
                    it = step.expand(step.node.iter)
                    result.ob(f"{name}: terms are walked in ascending glexsort order on every path", False,
                              module.loc(step.node), _txt(it)[:100])
                    result.add(Finding(
                        "R-CMP", module, name, step.node.iter,
                        f"on this path the term walk iterates {_txt(it)[:100]}, which is not the glexsort permutation "
                        f"of the aligned exponents: the storage order of aligned terms is not the selected monomial order",
                        derivation=describe_path(path), construct=f"{name}: walk without glexsort"))
                    break
            continue
        start, loop, it = found
        analysed += 1
        trace = describe_path(path)
        where = module.loc(loop)
        # ascending, complete walk
        direct = isinstance(it, ast.Call) and not is_S(it) and ctx.dotted(module, it.func) == GLEXSORT
        result.ob(f"{name}: terms are walked in ascending glexsort order (no reversal / slice)", direct, where, _txt(it)[:100])
        if not direct:
            result.add(Finding("R-CMP", module, name, loop.iter,
                               f"the term walk iterates {_txt(it)[:100]}, not the ascending glexsort permutation: "
                               f"the verdict of a smaller monomial overrides a larger one"))
        has_break = any(isinstance(n, (ast.Break, ast.Return)) for s in loop.body for n in ast.walk(s))
        result.ob(f"{name}: the walk visits every term (no break/return in the loop)", not has_break, where, "")
        if has_break:
            result.add(Finding("R-CMP", module, name, loop, "the term walk stops early (break/return in the loop)",
                               construct=f"{name}: loop with break"))
        arg0 = it.args[0] if direct and it.args else None
        if arg0 is not None:
            src = set(source_params(ctx, module, arg0))
            ok = bool(src & {p0, p1}) and ".exponents" in _txt(arg0)
            result.ob(f"{name}: the order is that of the aligned operands' exponents", ok, where, _txt(arg0)[:80])
            if not ok:
                result.add(Finding("R-CMP", module, name, loop.iter,
                                   f"glexsort is applied to {_txt(arg0)[:80]}, not to the aligned exponents"))
        # the masked store inside the first iteration
        store = None
        for step in path[start + 1:]:
            if step.kind in ("iter", "loopexit"):
                break
            if step.kind == "stmt" and isinstance(step.node, ast.Assign) and isinstance(step.node.targets[0], ast.Subscript):
                store = step
        if store is None:
            # two-pass form: the walk only collects the per-term operands in a local list (directly, or through an inlined
            # generator), a second loop over that list - in order, complete - overwrites the verdict
            gtext = _txt(it)
            for idx2 in range(start + 1, len(path)):
                step2 = path[idx2]
                if step2.kind != "iter" or not isinstance(step2.node, ast.For) or step2.node is loop:
                    continue
                it2 = step2.expand(step2.node.iter)
                while isinstance(it2, ast.Call) and isinstance(it2.func, ast.Name) and it2.func.id in ("list", "tuple") \
                        and len(it2.args) == 1:
                    it2 = it2.args[0]
                if not (isinstance(it2, (ast.List, ast.Tuple)) and it2.elts and all(gtext in _txt(e) for e in it2.elts)):
                    continue
                brk2 = any(isinstance(n, (ast.Break, ast.Return)) for s2 in step2.node.body for n in ast.walk(s2))
                if brk2:
                    result.ob(f"{name}: the second pass visits every collected term", False, module.loc(step2.node), "")
                    result.add(Finding("R-CMP", module, name, step2.node, "the term walk stops early (break/return in the loop)",
                                       construct=f"{name}: loop with break"))
                for step3 in path[idx2 + 1:]:
                    if step3.kind in ("iter", "loopexit"):
                        break
                    if step3.kind == "stmt" and isinstance(step3.node, ast.Assign) and isinstance(step3.node.targets[0], ast.Subscript):
                        store = step3
                if store is not None:
                    break
        if store is None:
            result.ob(f"{name}: verdict overwritten inside the walk", False, where, "")
            result.add(Finding("R-CMP", module, name, loop, "no masked overwrite of the verdict inside the term walk",
                               construct=f"{name}: no store in loop"))
            continue
        target = store.node.targets[0]
        mask = store.expand(target.slice)
        value = store.expand(store.node.value)
        conj = _conjuncts(mask)
        has_neq = any(_is_neq(ctx, module, c, p0, p1) for c in conj)
        result.ob(f"{name}: overwrite only where the coefficients differ", has_neq, module.loc(store.orig), _txt(mask)[:120])
        if not has_neq:
            result.add(Finding(
                "R-CMP", module, name, store.node,
                f"the verdict is overwritten under mask {_txt(mask)[:100]} which lacks the conjunct "
                f"'coefficients1[idx] != coefficients2[idx]': equal terms of a larger monomial reset the verdict"))
        # value = VERDICT(c1[idx], c2[idx])[mask]
        same_mask = isinstance(value, ast.Subscript) and _txt(value.slice) == _txt(mask)
        verdict = value.value if isinstance(value, ast.Subscript) else value
        result.ob(f"{name}: the stored verdict is selected with the same mask", same_mask, module.loc(store.orig), "")
        if not same_mask:
            result.add(Finding("R-CMP", module, name, store.node,
                               "the verdict array is not indexed with the mask it is stored under"))
        if expect_callee is not None:
            callee = ctx.dotted(module, verdict.func) if isinstance(verdict, ast.Call) and not is_S(verdict) else None
            ok = callee == expect_callee
            result.ob(f"{name}: in-loop verdict computed by {expect_callee}", ok, module.loc(store.orig), str(callee))
            if not ok:
                result.add(Finding(
                    "R-CMP", module, name, store.node,
                    f"the in-loop verdict is computed by {callee or _txt(verdict)[:60]} but the function is "
                    f"registered for {expect_callee}: the six comparison functions no longer describe one order"))
            if ok and len(verdict.args) >= 2:
                a = set(source_params(ctx, module, verdict.args[0]))
                b = set(source_params(ctx, module, verdict.args[1]))
                order_ok = p0 in a and p1 in b and p1 not in a and p0 not in b
                result.ob(f"{name}: verdict operands in parameter order", order_ok, module.loc(store.orig), "")
                if not order_ok:
                    result.add(Finding("R-CMP", module, name, store.node,
                                       f"{expect_callee} receives the coefficient columns in swapped order"))
        if expect_op is not None:
            ok = isinstance(verdict, ast.Compare) and len(verdict.ops) == 1 and isinstance(verdict.ops[0], expect_op)
            if ok:
                a = set(source_params(ctx, module, verdict.left))
                b = set(source_params(ctx, module, verdict.comparators[0]))
                ok = p0 in a and p1 in b and p1 not in a and p0 not in b
            result.ob(f"{name}: selection mask is coefficients1 {expect_op.__name__} coefficients2", ok,
                      module.loc(store.orig), _txt(verdict)[:80])
            if not ok:
                result.add(Finding(
                    "R-CMP", module, name, store.node,
                    f"{name} must select with 'coefficients1[idx] {'>' if expect_op is ast.Gt else '<'} "
                    f"coefficients2[idx]' (operands in order); found {_txt(verdict)[:80]}"))
    return analysed


def run(ctx) -> RuleResult:
    result = RuleResult(
        "R-CMP",
        "the four ordering functions, maximum/minimum and the equality folds are instances of their "
        "templates: ascending glexsort walk, masked overwrite where coefficients differ, verdict by the "
        "registered ufunc with operands in order; folds over all aligned columns with matching combiner",
    )
    for name, mirror in ORDERING.items():
        modname = f"numpoly.array_function.{name}"
        module = ctx.repo.module(modname)
        func = ctx.repo.function(modname, name)
        target = f"numpy.{name}"
        registered = any(target in reg.targets and reg.func is func for reg in ctx.regs)
        result.ob(f"{name} is registered for {target}", registered, module.loc(func), "")
        if not registered:
            result.add(Finding("R-CMP", module, name, func, f"{name} is not the function registered for {target}",
                               construct=f"def {name}"))
        analysed = _check_walk(ctx, result, module, func, name, target, None)
        if analysed == 0:
            # accepted alternative: delegation to the mirrored sibling with swapped operands
            params = [a.arg for a in func.args.args]
            ok = False
            for path in ctx.paths(module, func, max_iter=1):
                last = path[-1]
                if last.kind == "return" and last.node.value is not None:
                    value = last.expand(last.node.value)
                    if isinstance(value, ast.Call) and not is_S(value):
                        callee = ctx.dotted(module, value.func) or ""
                        if callee.endswith(f".{mirror}") and len(value.args) >= 2 and is_param(value.args[0], params[1]) \
                                and is_param(value.args[1], params[0]):
                            ok = True
            if not ok:
                raise AnalysisError(f"{name}: neither the glexsort walk nor delegation to {mirror} recognised")
            result.ob(f"{name}: delegates to {mirror} with swapped operands", True, module.loc(func), "")
        # initial verdict uses the same ufunc
        for path in ctx.paths(module, func, max_iter=1):
            for step in path:
                if step.kind == "stmt" and isinstance(step.node, ast.Assign) and isinstance(step.node.value, ast.Call):
                    callee = ctx.dotted(module, step.node.value.func)
                    tgt = step.node.targets[0]
                    if isinstance(tgt, ast.Name) and tgt.id == "out" and callee and callee.startswith("numpy.") \
                            and callee.split(".")[-1] in ORDERING:
                        ok = callee == target
                        result.ob(f"{name}: initial verdict computed by {target}", ok, module.loc(step.orig), callee)
                        if not ok:
                            result.add(Finding("R-CMP", module, name, step.node,
                                               f"the initial verdict uses {callee}, the function is registered for {target}"))
            break
    for name, op in (("maximum", ast.Gt), ("minimum", ast.Lt)):
        modname = f"numpoly.array_function.{name}"
        module = ctx.repo.module(modname)
        func = ctx.repo.function(modname, name)
        analysed = _check_walk(ctx, result, module, func, name, None, op)
        if analysed == 0:
            raise AnalysisError(f"{name}: glexsort walk not recognised")
        params = [a.arg for a in func.args.args]
        for path in ctx.paths(module, func, max_iter=1):
            last = path[-1]
            if last.kind != "return":
                continue
            value = last.expand(last.node.value)
            ok = False
            why = _txt(value)[:100]
            if isinstance(value, ast.Call) and not is_S(value) and (ctx.dotted(module, value.func) or "").endswith(".where") \
                    and len(value.args) == 3:
                a = set(source_params(ctx, module, value.args[1]))
                b = set(source_params(ctx, module, value.args[2]))
                ok = params[0] in a and params[1] in b and params[1] not in a and params[0] not in b
                init = value.args[0]
                init_ok = isinstance(init, ast.Call) and (ctx.dotted(module, init.func) or "") == "numpy.zeros"
                result.ob(f"{name}: selection mask starts all-False (equal elements take the second operand)",
                          init_ok, module.loc(last.orig), _txt(init)[:60])
            result.ob(f"{name}: returns where(mask, x1, x2) in that order", ok, module.loc(last.orig), why)
            if not ok:
                result.add(Finding("R-CMP", module, name, last.node,
                                   f"{name} must return where(mask, {params[0]}, {params[1]}); found {why}"))
            break
    # folds
    folds = {
        "equal": ("numpy.equal", ast.BitAnd), "isclose": ("numpy.isclose", ast.BitAnd),
        "not_equal": ("numpy.not_equal", ast.BitOr),
    }
    for name, (pred, comb) in folds.items():
        modname = f"numpoly.array_function.{name}"
        module = ctx.repo.module(modname)
        func = ctx.repo.function(modname, name)
        loops = [n for n in ast.walk(func) if isinstance(n, ast.For)]
        good = False
        for loop in loops:
            calls = [c for s in loop.body for c in calls_in(s) if ctx.dotted(module, c.func) == pred]
            if not calls:
                continue
            good = True
            # what the loop ranges over: the iterable itself, or X for 'range(len(X))' (an index loop over all of X);
            # a local bound once stands for its value (coefficients1 = x1.coefficients)
            target = loop.iter
            if isinstance(target, ast.Call) and isinstance(target.func, ast.Name) and target.func.id == "range" \
                    and len(target.args) == 1 and isinstance(target.args[0], ast.Call) and isinstance(target.args[0].func, ast.Name) \
                    and target.args[0].func.id == "min" and len(target.args[0].args) == 2 \
                    and all(isinstance(a, ast.Call) and isinstance(a.func, ast.Name) and a.func.id == "len" and len(a.args) == 1
                            for a in target.args[0].args):
                # range(min(len(A), len(B))): the positions zip(A, B) visits
                target = ast.Call(func=ast.Name(id="zip", ctx=ast.Load()), args=[a.args[0] for a in target.args[0].args], keywords=[])
            if isinstance(target, ast.Call) and isinstance(target.func, ast.Name) and target.func.id == "range" \
                    and len(target.args) == 1 and isinstance(target.args[0], ast.Call) and isinstance(target.args[0].func, ast.Name) \
                    and target.args[0].func.id == "len" and len(target.args[0].args) == 1:
                target = target.args[0].args[0]
            def _resolve(expr):
                for _ in range(3):
                    if isinstance(expr, ast.Name):
                        values = [n.value for n in ast.walk(func) if isinstance(n, ast.Assign) and len(n.targets) == 1
                                  and isinstance(n.targets[0], ast.Name) and n.targets[0].id == expr.id]
                        # a, b = x, y
                        for n in ast.walk(func):
                            if isinstance(n, ast.Assign) and len(n.targets) == 1 and isinstance(n.targets[0], ast.Tuple) \
                                    and isinstance(n.value, ast.Tuple) and len(n.value.elts) == len(n.targets[0].elts):
                                for tgt, val in zip(n.targets[0].elts, n.value.elts):
                                    if isinstance(tgt, ast.Name) and tgt.id == expr.id:
                                        values.append(val)
                        if len(values) == 1:
                            expr = values[0]
                            continue
                    break
                return expr

            if isinstance(target, ast.Call) and isinstance(target.func, ast.Name) and target.func.id == "zip":
                target = ast.Call(func=target.func, args=[_resolve(a) for a in target.args], keywords=[])
            else:
                target = _resolve(target)
            it = U(target)
            full = (".keys" in it or ".coefficients" in it) and "[" not in it.replace("[0]", "").replace("[1]", "") \
                and "reversed" not in it and "range(" not in it
            result.ob(f"{name}: folds over all aligned columns", full, module.loc(loop), it)
            if not full:
                result.add(Finding("R-CMP", module, name, loop.iter,
                                   f"the fold iterates {it}, not every aligned coefficient column"))
            brk = any(isinstance(n, (ast.Break,)) for s in loop.body for n in ast.walk(s))
            result.ob(f"{name}: the fold visits every column (no break)", not brk, module.loc(loop), "")
            if brk:
                result.add(Finding("R-CMP", module, name, loop, "the fold stops early", construct=f"{name}: break"))
            augs = [n for s in loop.body for n in ast.walk(s) if isinstance(n, ast.AugAssign)]
            ok = bool(augs) and all(isinstance(a.op, comb) for a in augs)
            result.ob(f"{name}: columns combined with {'&=' if comb is ast.BitAnd else '|='}", ok, module.loc(loop),
                      "; ".join(U(a) for a in augs)[:100])
            if not ok:
                result.add(Finding(
                    "R-CMP", module, name, augs[0] if augs else loop,
                    f"{name} must combine the per-column verdicts with "
                    f"{'&= (all columns equal)' if comb is ast.BitAnd else '|= (any column differs)'}"))
            if comb is ast.BitAnd:
                init_calls = [c for n in ast.walk(func) if isinstance(n, (ast.Assign, ast.AnnAssign)) and n.value is not None
                              for c in ast.walk(n.value) if isinstance(c, ast.Call)
                              and ctx.dotted(module, c.func) in ("numpy.ones", "numpy.zeros", "numpy.full", "numpy.empty")]
                inits = init_calls
                ok = bool(init_calls) and all(ctx.dotted(module, c.func) == "numpy.ones" for c in init_calls)
                result.ob(f"{name}: conjunction starts from all-True", ok, module.loc(func), "")
                if not ok:
                    result.add(Finding("R-CMP", module, name, inits[0] if inits else func,
                                       f"{name} must start its conjunction from numpy.ones(..., dtype=bool)"))
        if not good:
            # vectorised fold: the predicate applied once to all columns, reduced over the term axis
            handled = False
            for path in ctx.paths(module, func, max_iter=1):
                for step in path:
                    for raw in step_exprs(step):
                        for call in calls_in(raw):
                            if ctx.dotted(module, call.func) != pred or len(call.args) < 2:
                                continue
                            a0, a1 = (strip_tags(step.expand(a)) for a in call.args[:2])
                            t0, t1 = U(a0), U(a1)
                            joint = None
                            for arg in (a0, a1):
                                for node in ast.walk(arg):
                                    if isinstance(node, ast.Call) and ctx.dotted(module, node.func) in (
                                            "numpy.asarray", "numpy.array", "numpy.stack", "numpy.asanyarray") and node.args \
                                            and isinstance(node.args[0], (ast.List, ast.Tuple)) and len(node.args[0].elts) == 2 \
                                            and all(".coefficients" in U(e) for e in node.args[0].elts) \
                                            and U(node.args[0].elts[0]) != U(node.args[0].elts[1]):
                                        joint = node
                            if joint is not None and not handled:
                                handled = True
                                result.ob(f"{name}: both operands' columns are compared in their own dtypes", False,
                                          module.loc(step.orig), U(joint)[:80])
                                result.add(Finding(
                                    "R-CMP", module, name, call,
                                    f"{name} packs the coefficient columns of both operands into one array ('{U(joint)[:70]}') before "
                                    f"comparing them: numpy promotes the pair to a common dtype first (int64 with uint64 gives "
                                    f"float64), so integers above 2**53 that differ compare equal while <, > and != still tell them "
                                    f"apart - trichotomy and the complement rule fail",
                                    derivation=describe_path(path), construct=f"{name}: operands promoted to a common dtype before comparison"))
                            elif joint is None and ".coefficients" in t0 and ".coefficients" in t1 and not handled:
                                handled = True
                                result.ob(f"{name}: vectorised fold over all aligned columns", True, module.loc(step.orig), t0[:60])
            if not handled:
                raise AnalysisError(f"{name}: fold with {pred} not recognised")
    # allclose: early False, final True
    module = ctx.repo.module("numpoly.array_function.allclose")
    func = ctx.repo.function(module.name, "allclose")
    rets = {}
    for path in ctx.paths(module, func, max_iter=1):
        last = path[-1]
        if last.kind == "return" and isinstance(last.node.value, ast.Constant):
            assumes = [s for s in path if s.kind == "assume"]
            if assumes:
                node, pol = assumes[-1].node, assumes[-1].data
                while isinstance(node, ast.UnaryOp) and isinstance(node.op, ast.Not):
                    node, pol = node.operand, not pol
                rets.setdefault(last.node.value.value, []).append((pol, U(node)))
            else:
                rets.setdefault(last.node.value.value, []).append((None, ""))
    ok = all(pol is False and "allclose" in text for pol, text in rets.get(False, [(None, "")])) and True in rets
    result.ob("allclose: False as soon as one column is not close, True only after all columns", ok, module.loc(func), str(rets)[:160])
    if not ok:
        result.add(Finding("R-CMP", module, "allclose", func,
                           "allclose must return False exactly when numpy.allclose fails for a column and True after "
                           "the loop", construct="allclose fold"))
    result.floor = 40
    return result
