"""R-ALIGN - alignment typestate: coefficient columns / exponent rows of two
different polynomials may only be combined when both came out of the same
alignment call.

Provenance expressions carry the history, so the alignment class of a
polynomial is read off its provenance: ``align_polynomials(a, b)[0]`` and
``...[1]`` share a class because they are subscripts of the *same* call.
"""
from __future__ import annotations

import ast
from typing import List, Optional, Tuple

from .. import AnalysisError
from ..ctx import ALIGN_FUNCS
from ..paths import PARAM, TooManyPaths, U, describe_path, is_S, strip_tags, walk_shared
from ..report import Finding, RuleResult
from .common import calls_in, is_param, kwarg, step_exprs

POLY_ATTRS = {"coefficients", "exponents", "keys", "values"}
VIEW_METHODS = {"ravel", "reshape", "transpose", "view", "squeeze", "swapaxes"}
VIEW_ATTRS = {"T"}
EXEMPT_FUNCS = {
    "numpoly.align.align_polynomials": "alignment itself",
    "numpoly.align.align_shape": "alignment itself",
    "numpoly.align.align_indeterminants": "alignment itself (scatters columns by name lookup)",
    "numpoly.align.align_exponents": "alignment itself (combines by exponent-tuple dictionary lookup)",
    "numpoly.construct.compose.compose_polynomial_array": "combines by exponent-tuple dictionary lookup, not by position",
    "numpoly.array_function.copyto.copyto": "explicit destination; membership-guarded key by key",
}
OUTPUT_PARAMS = {"out", "dst"}
NDPOLY = "numpoly.baseclass.ndpoly"
# helpers whose parameters must already be aligned at every call site: name -> (i, j, kind)
PRECONDITIONS = {
    "numpoly.poly_function.divide.divmod.get_division_candidate": [(0, 1, "exp")],
}
RANK = {"names": 1, "exp": 2}


class _Obj:
    """A polynomial object as seen in a provenance expression."""

    def __init__(self, ctx, module, expr):
        self.expr = expr
        core = _simplify_literal(expr)
        # strip views
        while True:
            if isinstance(core, ast.Attribute) and core.attr in VIEW_ATTRS:
                core = core.value
            elif isinstance(core, ast.Call) and isinstance(core.func, ast.Attribute) and core.func.attr in VIEW_METHODS \
                    and ctx.dotted(module, core.func) is None:
                core = core.func.value
            else:
                break
        # an allocation shaped after another polynomial stands for that polynomial
        if isinstance(core, ast.Call) and not is_S(core) and ctx.dotted(module, core.func) == NDPOLY:
            exps = kwarg(core, "exponents")
            if isinstance(exps, ast.Attribute) and exps.attr == "exponents":
                inner = _Obj(ctx, module, exps.value)
                core = inner.core
        self.core = core
        self.text = U(strip_tags(core))
        self.cls: Optional[Tuple[str, str]] = None
        node = core
        if is_S(node) and node.func.id[1:] in ("elem", "rest"):
            node = node.args[0]
            if isinstance(node, ast.Subscript) and isinstance(node.slice, ast.Slice):
                node = node.value
        elif isinstance(node, ast.Subscript) and isinstance(node.slice, ast.Constant):
            node = node.value
        else:
            node = None
        if isinstance(node, ast.Call) and not is_S(node):
            name = ctx.dotted(module, node.func)
            if name in ALIGN_FUNCS and ALIGN_FUNCS[name] in RANK:
                self.cls = (ALIGN_FUNCS[name], U(strip_tags(node)))
        self.params = sorted({n.id[1:] for n in walk_shared(core) if isinstance(n, ast.Name) and n.id.startswith(PARAM)})
        self.is_output = is_param(_root(core)) and _root(core).id[1:] in OUTPUT_PARAMS


def _simplify_literal(expr):
    """Σelem((x,)) and (x, y)[k] denote x / the k-th element."""
    for _ in range(4):
        if is_S(expr) and expr.func.id[1:] == "elem" and expr.args and isinstance(expr.args[0], (ast.Tuple, ast.List)) \
                and len(expr.args[0].elts) == 1 and not isinstance(expr.args[0].elts[0], ast.Starred):
            expr = expr.args[0].elts[0]
        elif isinstance(expr, ast.Subscript) and isinstance(expr.value, (ast.Tuple, ast.List)) \
                and isinstance(expr.slice, ast.Constant) and isinstance(expr.slice.value, int) \
                and 0 <= expr.slice.value < len(expr.value.elts) \
                and not any(isinstance(e, ast.Starred) for e in expr.value.elts):
            expr = expr.value.elts[expr.slice.value]
        else:
            break
    return expr


def _root(expr):
    for _ in range(12):
        if isinstance(expr, (ast.Attribute, ast.Subscript, ast.Starred)):
            expr = expr.value
        elif is_S(expr) and expr.args:
            expr = expr.args[0]
        elif isinstance(expr, ast.Call) and isinstance(expr.func, ast.Attribute) and \
                isinstance(_chain_root(expr.func), ast.Name) and _chain_root(expr.func).id in ("numpoly", "numpy") \
                and expr.args:
            expr = expr.args[0]  # numpoly.aspolynomial(x) / numpy.asarray(x)
        elif isinstance(expr, ast.Call) and isinstance(expr.func, ast.Attribute):
            expr = expr.func.value  # method call on an object
        elif isinstance(expr, ast.Call) and isinstance(expr.func, ast.Name) and expr.args:
            expr = expr.args[0]
        else:
            return expr
    return expr


def _chain_root(expr):
    while isinstance(expr, ast.Attribute):
        expr = expr.value
    return expr


def _compatible(a: _Obj, b: _Obj, need: str, step=None) -> bool:
    if a.text == b.text:
        return True
    if a.cls and b.cls and a.cls[1] == b.cls[1] and RANK[a.cls[0]] >= RANK[need]:
        return True
    if step is not None:
        # a collection known to hold a single element: Σelem(X) is X[0]
        for x, y in ((a, b), (b, a)):
            if is_S(x.core) and x.core.func.id[1:] == "elem" and isinstance(y.core, ast.Subscript) \
                    and isinstance(y.core.slice, ast.Constant) and y.core.slice.value == 0:
                coll = U(strip_tags(x.core.args[0]))
                if coll == U(strip_tags(y.core.value)):
                    for node, polarity in step.fact_items():
                        if polarity is False and U(strip_tags(node)) == f"len({coll}) > 1":
                            return True
    return False


def _base_of_attr(expr, attrs=POLY_ATTRS):
    """``X.coefficients`` / ``X.coefficients[i]`` / ``Σelem(X.keys[1:])`` -> (X, attr)."""
    node = expr
    for _ in range(6):
        if isinstance(node, ast.Attribute) and node.attr in attrs:
            return node.value, node.attr
        if isinstance(node, ast.Attribute) and node.attr in VIEW_ATTRS:
            node = node.value
        elif isinstance(node, ast.Subscript):
            node = node.value
        elif is_S(node) and node.func.id[1:] in ("elem", "rest", "index") and node.args:
            node = node.args[0]
        elif isinstance(node, ast.Call) and isinstance(node.func, ast.Name) and node.func.id in ("list", "tuple", "reversed", "enumerate") and node.args:
            node = node.args[0]
        elif isinstance(node, ast.Call) and isinstance(node.func, ast.Attribute) and node.func.attr in ("copy", "tolist") :
            node = node.func.value
        else:
            return None
    return None


def _key_source(ctx, module, key):
    """If ``key`` iterates / indexes ``A.keys`` return A."""
    found = _base_of_attr(key, {"keys"})
    if found:
        return found[0]
    return None


def _sort_source(ctx, module, idx):
    """idx = Σelem(glexsort(A.exponents.T, ...)) / Σelem(numpy.lexsort(A.exponents.T)) -> A."""
    node = idx
    if is_S(node) and node.func.id[1:] in ("elem", "index") and node.args:
        node = node.args[0]
    else:
        return None
    while isinstance(node, ast.Call) and isinstance(node.func, ast.Name) and node.func.id in ("reversed", "list", "enumerate") and node.args:
        node = node.args[0]
    while isinstance(node, ast.Subscript):
        node = node.value
    if isinstance(node, ast.Call) and not is_S(node) and node.args:
        name = ctx.dotted(module, node.func) or ""
        if name.endswith("glexsort") or name in ("numpy.lexsort", "numpy.argsort"):
            found = _base_of_attr(node.args[0], {"exponents"})
            if found:
                return found[0]
    return None


def run(ctx) -> RuleResult:
    result = RuleResult(
        "R-ALIGN",
        "columns/keys/exponent rows of two different polynomials are combined only when both come "
        "out of the same align_* call (provenance-based typestate); helper preconditions are "
        "checked at their call sites",
    )
    n_sites = 0
    n_funcs = 0
    for module, qual, func in ctx.repo.analysed_functions():
        if module.is_pyx:
            continue
        fq = f"{module.name}.{qual}"
        if fq in EXEMPT_FUNCS:
            result.exception(fq, EXEMPT_FUNCS[fq])
            continue
        if func.name in module.absorbed:
            continue  # private helper inlined into every caller: judged with the caller's provenance
        text = ast.unparse(func)
        if not any(a in text for a in (".coefficients", ".values", ".exponents", ".keys", "get_division_candidate")):
            continue
        n_funcs += 1
        paths = ctx.paths_auto(module, func)
        is_helper = fq in PRECONDITIONS
        params = [a.arg for a in func.args.posonlyargs + func.args.args]
        reported = set()
        cache = {}
        for path in paths:
            trace = None
            for step in path:
                for raw in step_exprs(step):
                    ckey = (id(raw), id(step.vars), id(step.facts))
                    if ckey in cache:
                        continue
                    cache[ckey] = True
                    expr = step.expand(raw)
                    for sink, a_expr0, b_expr0, need, what in _sinks(ctx, module, expr, step):
                      for a_expr in _alternatives(a_expr0, step):
                        for b_expr in _alternatives(b_expr0, step):
                          a, b = _Obj(ctx, module, a_expr), _Obj(ctx, module, b_expr)
                          for _once in (0,):
                              if a.is_output or b.is_output:
                                  continue
                              ok = _compatible(a, b, need, step)
                              if not ok and is_helper and a.params and b.params and set(a.params + b.params) <= set(params) \
                                      and not a.cls and not b.cls:
                                  continue  # discharged at the call sites (precondition)
                              if not ok and _guarded(step, b_expr, a_expr, sink):
                                  ok = True
                              n_sites += 1
                              ident = f"{fq}: {what}"
                              if ok:
                                  result.ob(ident, True, module.loc(step.orig), "")
                                  continue
                              key = (what, U(getattr(sink, "_orig", sink))[:80])
                              if key in reported:
                                  continue
                              reported.add(key)
                              trace = trace or describe_path(path)
                              result.ob(ident, False, module.loc(step.orig), f"{a.text[:80]} vs {b.text[:80]}")
                              result.add(Finding(
                                  "R-ALIGN", module, qual, step.node,
                                  f"{what}: '{a.text[:90]}' and '{b.text[:90]}' do not come out of one "
                                  f"alignment call (need {need}-alignment); keys/columns of one are applied to the other",
                                  derivation=trace,
                                  construct=f"{what} :: {U(step.orig)[:160]}"))
                # preconditions of helpers at call sites
                for raw in step_exprs(step):
                    ckey = ("pre", id(raw), id(step.vars))
                    if ckey in cache:
                        continue
                    cache[ckey] = True
                    for call in calls_in(raw):
                        name = ctx.dotted(module, call.func, ctx.locals_of(func) - {"get_division_candidate"})
                        if name not in PRECONDITIONS:
                            continue
                        expanded = step.expand(call)
                        for i, j, need in PRECONDITIONS[name]:
                            if max(i, j) >= len(expanded.args):
                                continue
                            a, b = _Obj(ctx, module, expanded.args[i]), _Obj(ctx, module, expanded.args[j])
                            ok = _compatible(a, b, need)
                            n_sites += 1
                            what = f"{name.split('.')[-1]}(arg{i}, arg{j}) requires {need}-aligned operands"
                            result.ob(f"{fq}: {what}", ok, module.loc(step.orig), f"{a.text[:60]} vs {b.text[:60]}")
                            if not ok and (what, "") not in reported:
                                reported.add((what, ""))
                                result.add(Finding(
                                    "R-ALIGN", module, qual, call,
                                    f"{what}: '{a.text[:90]}' and '{b.text[:90]}' are not results of one "
                                    f"alignment call on this path", derivation=describe_path(path)))
    result.info["functions"] = n_funcs
    result.info["sites"] = n_sites
    result.floor = 40
    return result


def _alternatives(expr, step):
    """An element of a literal dict/tuple/list denotes one of its members (those not known to be None)."""
    base = expr
    # an attribute / index of an arbitrary element of a literal list of records:  Σelem([_Rec(a, p), _Rec(b, q)]).poly
    chain = []
    inner = expr
    while isinstance(inner, (ast.Attribute, ast.Subscript)) and not (isinstance(inner, ast.Subscript) and is_S(inner.value) is False and False):
        chain.append(inner)
        inner = inner.value
    if chain and is_S(inner, "elem") and inner.args and isinstance(inner.args[0], (ast.List, ast.Tuple)) and inner.args[0].elts \
            and not any(isinstance(e, ast.Starred) for e in inner.args[0].elts):
        from ..paths import _project_record

        out = []
        for member in inner.args[0].elts:
            node = member
            for link in reversed(chain):
                if isinstance(link, ast.Attribute):
                    node = ast.Attribute(value=node, attr=link.attr, ctx=ast.Load())
                else:
                    node = ast.Subscript(value=node, slice=link.slice, ctx=ast.Load())
                node = _project_record(node)
            out.append(node)
        return out
    if is_S(base) and base.func.id[1:] in ("value", "elem", "key") and base.args:
        # the container is known to be empty (falsy) on this path: it has no elements at all
        want = U(strip_tags(base.args[0]))
        for node, polarity in step.fact_items():
            if polarity is False and U(strip_tags(node)) == want:
                return []
    if is_S(base) and base.func.id[1:] in ("value", "elem") and base.args and isinstance(base.args[0], (ast.Dict, ast.Tuple, ast.List)):
        lit = base.args[0]
        members = list(lit.values) if isinstance(lit, ast.Dict) else [e for e in lit.elts if not isinstance(e, ast.Starred)]
        if members and not (isinstance(lit, (ast.Tuple, ast.List)) and len(members) == 1):
            out = []
            for member in members:
                known_none = step.fact(f"{U(member)} is None") is True or (
                    isinstance(member, ast.Constant) and member.value is None)
                if not known_none:
                    out.append(member)
            return out
    # a value of dict(zip(keys, values)) is an element of values
    if is_S(base, "value") and base.args and isinstance(base.args[0], ast.Call) and isinstance(base.args[0].func, ast.Name) \
            and base.args[0].func.id == "dict" and len(base.args[0].args) == 1:
        inner = base.args[0].args[0]
        if isinstance(inner, ast.Call) and isinstance(inner.func, ast.Name) and inner.func.id == "zip" and len(inner.args) == 2:
            return [ast.Call(func=ast.Name(id="Σelem", ctx=ast.Load()), args=[inner.args[1]], keywords=[])]
    # a value of a dict comprehension over a literal sequence of pairs:
    #   {name: poly for name, poly in (("append", append), ("prepend", prepend)) if poly is not None}
    if is_S(base, "value") and base.args and isinstance(base.args[0], ast.DictComp):
        comp = base.args[0]
        value = comp.value
        if isinstance(value, ast.Subscript) and isinstance(value.slice, ast.Constant) and isinstance(value.slice.value, int) \
                and is_S(value.value, "elem") and value.value.args and isinstance(value.value.args[0], (ast.Tuple, ast.List)):
            lit = value.value.args[0]
            k = value.slice.value
            if lit.elts and all(isinstance(e, (ast.Tuple, ast.List)) and len(e.elts) > k for e in lit.elts):
                out = []
                for pair in lit.elts:
                    member = pair.elts[k]
                    known_none = step.fact(f"{U(member)} is None") is True or (
                        isinstance(member, ast.Constant) and member.value is None)
                    if not known_none:
                        out.append(member)
                return out
    return [expr]


def _guarded(step, b_expr, a_expr, sink) -> bool:
    """``key in B.keys`` (or in the keys of an object of B's class) is known on the path."""
    for node, polarity in step.fact_items():
        if polarity is True and isinstance(node, ast.Compare) and len(node.ops) == 1 and isinstance(node.ops[0], ast.In):
            right = node.comparators[0]
            if isinstance(right, ast.Attribute) and right.attr == "keys":
                return True
    return False


def _sinks(ctx, module, expr, step):
    """Yield (node, A, B, need, description)."""
    for node in walk_shared(expr):
        # S1: zip(A.attr, B.attr)
        if isinstance(node, ast.Call) and isinstance(node.func, ast.Name) and node.func.id == "zip":
            bases = []
            for arg in node.args:
                found = _base_of_attr(arg, {"coefficients", "exponents", "keys"})
                if found:
                    bases.append(found)
            for i in range(len(bases)):
                for j in range(i + 1, len(bases)):
                    yield node, bases[i][0], bases[j][0], "exp", \
                        f"S1 zip over .{bases[i][1]} and .{bases[j][1]}"
        # S2: B.values[key] with key from A.keys
        if isinstance(node, ast.Subscript) and isinstance(node.value, ast.Attribute) and node.value.attr == "values":
            src = _key_source(ctx, module, node.slice)
            if src is not None:
                yield node, src, node.value.value, "exp", "S2 storage of one polynomial indexed by keys of another"
        # S3: B.coefficients[idx] with idx from a sort of A.exponents
        if isinstance(node, ast.Subscript):
            found = _base_of_attr(node.value, {"coefficients"})
            if found and isinstance(node.value, (ast.Attribute, ast.Subscript)) is not None:
                src = _sort_source(ctx, module, node.slice)
                if src is not None and isinstance(node.value, ast.Attribute):
                    yield node, src, found[0], "exp", "S3 coefficient column selected by the term order of another polynomial"
        # S5: constructor with exponents of A and coefficient columns of B
        if isinstance(node, ast.Call) and not is_S(node):
            exps, coefs = kwarg(node, "exponents"), kwarg(node, "coefficients")
            if exps is not None and coefs is not None:
                fe = _base_of_attr(exps, {"exponents"})
                fc = None
                for sub in walk_shared(coefs):
                    fc = fc or (_base_of_attr(sub, {"coefficients", "values"}) if isinstance(sub, (ast.Attribute,)) and sub.attr in ("coefficients", "values") else None)
                if fe and fc and isinstance(exps, ast.Attribute):
                    yield node, fe[0], fc[0], "exp", "S5 exponents of one polynomial paired with coefficient columns of another"
        # S6: arithmetic / comparison between exponent rows of two polynomials
        if isinstance(node, (ast.BinOp, ast.Compare)):
            left = node.left
            right = node.right if isinstance(node, ast.BinOp) else node.comparators[0]
            la = _first_exponents(left)
            ra = _first_exponents(right)
            if la is not None and ra is not None:
                yield node, la, ra, "names", "S6 exponent rows of two polynomials combined"


def _first_exponents(expr):
    """The polynomial whose exponent rows this operand *is* (views, subscripts, tile/repeat)."""
    node = expr
    for _ in range(8):
        if isinstance(node, ast.Attribute) and node.attr == "exponents":
            return node.value
        if isinstance(node, ast.Attribute) and node.attr in VIEW_ATTRS:
            node = node.value
        elif isinstance(node, ast.Subscript):
            node = node.value
        elif is_S(node) and node.func.id[1:] in ("elem", "rest") and node.args:
            node = node.args[0]
        elif isinstance(node, ast.Call) and not is_S(node) and node.args and isinstance(node.func, ast.Attribute) \
                and node.func.attr in ("tile", "repeat", "asarray", "array", "astype", "copy"):
            node = node.args[0] if node.func.attr in ("tile", "repeat", "asarray", "array") else node.func.value
        else:
            return None
    return None
