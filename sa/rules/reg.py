"""R-REG - registry / namespace / kind agreement (C08 positive half).

If ``numpy.f(poly)`` is dispatched to the very same ``def`` that ``numpoly.f``
names, the two spellings execute one function object and agree by
construction (assumption A-DISPATCH).
"""
from __future__ import annotations

import ast
from typing import Dict, List, Optional, Tuple

from .. import AnalysisError, numpyfacts
from ..report import Finding, RuleResult

# numpy public name -> names under which numpoly exposes the same function
ALIASES = {
    "amax": ["amax", "max"], "max": ["max", "amax"],
    "amin": ["amin", "min"], "min": ["min", "amin"],
    "around": ["around", "round"], "round": ["round", "around"],
    "true_divide": ["true_divide", "divide"], "divide": ["divide", "true_divide"],
    "absolute": ["absolute", "abs"], "abs": ["abs", "absolute"],
    "remainder": ["remainder", "mod"], "mod": ["mod", "remainder"],
}

# functions in numpoly/array_function that carry a numpy name but are deliberately
# not registered (one line of reason each)
UNREGISTERED_OK = {
    "roots": "registration commented out upstream (only rank-1 polynomials supported)",
    "loadtxt": "takes a file name, numpy never dispatches it on a polynomial argument",
}


def _mapping_literal(ctx, dotted: str) -> Tuple[object, ast.Dict]:
    binding = ctx.res.lookup(dotted)
    if binding.kind != "assign":
        raise AnalysisError(f"anchor {dotted} is missing")
    value = binding.node.value
    if not isinstance(value, ast.Dict):
        raise AnalysisError(f"{dotted} is not a dict literal")
    return binding.module, value


def run(ctx) -> RuleResult:
    result = RuleResult(
        "R-REG",
        "every reachable registry entry T->F satisfies numpoly.<name(T)> is F; ufuncs only in "
        "the ufunc table, functions only in the function table; reduce/accumulate mappings "
        "agree with numpy's own definition of the reductions",
    )
    seen_function: Dict[str, str] = {}
    seen_ufunc: Dict[str, str] = {}
    reachable = 0
    dead: List[str] = []
    for reg in ctx.regs:
        fq = ctx.fq(reg.module, reg.func)
        for target in sorted(set(reg.targets)):
            if target.startswith("builtin:"):
                continue  # builtins max/min are never dispatched by numpy
            where = f"{reg.module.relpath}:{reg.lineno}"
            if not numpyfacts.exists(target):
                result.ob(f"{fq} <- {target}", False, where, "target does not exist")
                result.add(Finding("R-REG", reg.module, reg.func.name, reg.decorator,
                                   f"registered for {target}, which does not exist in numpy"))
                continue
            ufunc = numpyfacts.is_ufunc(target)
            in_function = reg.kind in ("implements", "implements_function")
            in_ufunc = reg.kind in ("implements", "implements_ufunc")
            live = (ufunc and in_ufunc) or ((not ufunc) and in_function)
            # double registration in the table that is actually consulted
            table = seen_ufunc if ufunc else seen_function
            if live:
                obj_key = next((k for k in table if numpyfacts.same_object(k, target)), None)
                if obj_key is not None and table[obj_key] != fq:
                    result.ob(f"{fq} <- {target} unique", False, where, f"also {table[obj_key]}")
                    result.add(Finding("R-REG", reg.module, reg.func.name, reg.decorator,
                                       f"{target} is registered twice ({table[obj_key]} and {fq})"))
                table.setdefault(target, fq)
            if not live:
                dead.append(f"{reg.kind}({target}) -> {fq}")
                continue
            reachable += 1
            short = target.split(".")[-1]
            candidates = ALIASES.get(short, [short])
            ok = False
            seen_names = []
            for cand in candidates:
                binding = ctx.res.public(cand)
                name = ctx.res.binding_name(binding) if binding.kind == "def" else None
                seen_names.append(f"numpoly.{cand}={name}")
                if binding.kind == "def" and binding.node is reg.func:
                    ok = True
                    break
            result.ob(f"numpy.{short} -> {fq}", ok, where, "; ".join(seen_names))
            if not ok:
                result.add(Finding(
                    "R-REG", reg.module, reg.func.name, reg.decorator,
                    f"{target}(poly) dispatches to {fq} but numpoly.{short} is "
                    f"{'; '.join(seen_names)}: the numpy and numpoly spellings run different code",
                ))
    result.info["dead_entries"] = dead
    result.info["reachable_entries"] = reachable

    # functions carrying a numpy name that are not registered at all
    registered_funcs = {id(reg.func) for reg in ctx.regs}
    pkg = ctx.res.namespace("numpoly.array_function")
    for name, binding in sorted(pkg.items()):
        if binding.kind != "def" or id(binding.node) in registered_funcs:
            continue
        if not binding.module.name.startswith("numpoly.array_function."):
            continue
        if name in UNREGISTERED_OK:
            result.exception(f"numpoly.{name}", UNREGISTERED_OK[name])
            continue
        exists = numpyfacts.exists(f"numpy.{name}") or numpyfacts.exists(f"numpy.linalg.{name}")
        if exists:
            result.ob(f"numpoly.{name} registered", False, binding.module.loc(binding.node), "")
            result.add(Finding(
                "R-REG", binding.module, binding.node.name, None,
                f"numpoly.{name} mirrors numpy.{name} but is registered for nothing: "
                f"numpy.{name}(poly) raises FeatureNotSupported while numpoly.{name}(poly) works",
                construct=f"def {name}",
            ))

    # reduce / accumulate mappings
    source_table = numpyfacts.check_reduction_table()
    for dict_name, frozen in (("REDUCE_MAPPINGS", numpyfacts.REDUCTIONS_FROZEN),
                              ("ACCUMULATE_MAPPINGS", numpyfacts.ACCUMULATIONS_FROZEN)):
        module, literal = _mapping_literal(ctx, f"numpoly.baseclass.{dict_name}")
        if not literal.keys:
            raise AnalysisError(f"{dict_name} is empty")
        for key, value in zip(literal.keys, literal.values):
            k = ctx.dotted(module, key)
            v = ctx.dotted(module, value)
            where = module.loc(key)
            if k is None or v is None:
                raise AnalysisError(f"{where}: cannot resolve {dict_name} entry")
            expected = frozen.get(v.split(".")[-1])
            ok = expected is not None and expected == k.split(".")[-1]
            if ok and dict_name == "REDUCE_MAPPINGS" and v.split(".")[-1] in source_table:
                ok = source_table[v.split(".")[-1]] == k.split(".")[-1]
            result.ob(f"{dict_name}[{k}] = {v}", ok, where, f"numpy defines {v} by {expected}")
            # __array_ufunc__ looks the mapped function up in UFUNC_COLLECTION
            in_table = [reg for reg in ctx.regs if reg.kind in ("implements", "implements_ufunc")
                        and any(numpyfacts.same_object(t, v) for t in reg.targets if not t.startswith("builtin:"))]
            other = [reg for reg in ctx.regs if any(numpyfacts.same_object(t, v) for t in reg.targets
                                                    if not t.startswith("builtin:"))]
            if not other:
                # mapped but implemented nowhere: both spellings raise FeatureNotSupported alike
                result.exception(f"{dict_name}[{k}] = {v}", "numpoly implements no such function; the reduce/accumulate "
                                                         "spelling and the function spelling both raise FeatureNotSupported")
                continue
            result.ob(f"{dict_name}[{k}] = {v} is registered in the ufunc table", bool(in_table), where, "")
            if not in_table:
                at = f" (registered only with @{other[0].kind} in {other[0].module.relpath})" if other else ""
                result.add(Finding(
                    "R-REG", other[0].module if other else module, other[0].func.name if other else "<module>",
                    other[0].decorator if other else key,
                    f"{dict_name} maps {k} to {v}, and __array_ufunc__ looks the mapped function up in UFUNC_COLLECTION, "
                    f"but {v} is not entered into that table{at}: {k}.{'reduce' if dict_name.startswith('REDUCE') else 'accumulate'}"
                    f"(poly) raises FeatureNotSupported while {v}(poly) works",
                    construct=f"{dict_name}[{k}] -> {v} not in UFUNC_COLLECTION",
                ))
            if not ok:
                result.add(Finding(
                    "R-REG", module, "<module>", key,
                    f"{dict_name} maps {k} to {v}, but numpy defines {v} as the reduction of "
                    f"{'numpy.' + expected if expected else 'another ufunc'}",
                    construct=f"{dict_name}[{k}] = {v}",
                ))
    result.floor = 80
    return result
