"""R-DIVINV - partial correctness of poly_divmod by a loop invariant (C05).

``dividend == quotient * divisor + remainder`` is decided *symbolically, from the source*: the values the loop
carries (quotient, running dividend, divisor) at the head of iteration k are taken as opaque atoms, the values
at the head of iteration k+1 are their provenance expressions along the enumerated path, and the difference

    (Q' * D' + R')  -  (Q * D + R)

is normalised as a polynomial over opaque atoms using only the commutative-ring laws (which is property C01, and
its structural clauses are checked there), ``where(m, a, b) = m*a + (1-m)*b`` for a 0/1 mask atom, ``zeros = 0`` and
"alignment changes representation only" (C04: ``align_polynomials(a, b)[i]`` denotes the i-th argument).  The
difference must be identically 0 (inductive step), the state before the first iteration must satisfy
``Q*D + R == dividend`` with ``D == divisor`` (base), the function must return ``(Q, R)`` of the loop state, and the
only other write into the running dividend is the exact-zero store of the term that the step cancels.  Nothing
is executed; termination is NOT decided.
"""
from __future__ import annotations

import ast
from typing import Dict, Optional, Tuple

from .. import AnalysisError
from ..paths import RECORDS, U, describe_path, is_S, strip_tags
from ..report import Finding, RuleResult

Poly = Dict[Tuple[str, ...], int]

ADD = {"add"}
SUB = {"subtract"}
MUL = {"multiply"}
NEG = {"negative"}
ZERO = {"zeros", "zeros_like"}
WRAP = {"aspolynomial", "polynomial", "asarray", "asanyarray"}
ALIGN = {"align_polynomials", "align_shape", "align_indeterminants", "align_exponents"}


def p_add(a: Poly, b: Poly, sign: int = 1) -> Poly:
    out = dict(a)
    for mono, coef in b.items():
        out[mono] = out.get(mono, 0) + sign * coef
        if out[mono] == 0:
            del out[mono]
    return out


def p_mul(a: Poly, b: Poly) -> Poly:
    out: Poly = {}
    for m1, c1 in a.items():
        for m2, c2 in b.items():
            mono = tuple(sorted(m1 + m2))
            out[mono] = out.get(mono, 0) + c1 * c2
            if out[mono] == 0:
                del out[mono]
    return out


def p_const(value: int) -> Poly:
    return {(): value} if value else {}


def p_atom(name: str) -> Poly:
    return {(name,): 1}


class Normaliser:
    def __init__(self, ctx, module, atoms: Dict[str, str]):
        self.ctx = ctx
        self.module = module
        self.atoms = atoms  # text of an opaque sub-expression -> atom name
        self.masks: Dict[str, str] = {}

    def dotted(self, func) -> str:
        """Last component of a resolved numpoly / numpy callable ('numpoly.array_function.add.add' -> 'add')."""
        name = self.ctx.dotted(self.module, func) or ""
        if name.startswith(("numpoly.", "numpy.")):
            return name.rsplit(".", 1)[-1]
        return ""

    def norm(self, expr) -> Poly:
        text = U(expr)
        if text in self.atoms:
            return p_atom(self.atoms[text])
        if isinstance(expr, ast.Constant) and isinstance(expr.value, (int, bool)):
            return p_const(int(expr.value))
        if isinstance(expr, ast.UnaryOp) and isinstance(expr.op, ast.USub):
            return p_mul(p_const(-1), self.norm(expr.operand))
        if isinstance(expr, ast.UnaryOp) and isinstance(expr.op, ast.UAdd):
            return self.norm(expr.operand)
        if isinstance(expr, ast.BinOp):
            if isinstance(expr.op, ast.Add):
                return p_add(self.norm(expr.left), self.norm(expr.right))
            if isinstance(expr.op, ast.Sub):
                return p_add(self.norm(expr.left), self.norm(expr.right), -1)
            if isinstance(expr.op, ast.Mult):
                return p_mul(self.norm(expr.left), self.norm(expr.right))
        if isinstance(expr, ast.Subscript) and isinstance(expr.value, ast.Call) and self.dotted(expr.value.func) in ALIGN \
                and isinstance(expr.slice, ast.Constant) and isinstance(expr.slice.value, int) \
                and 0 <= expr.slice.value < len(expr.value.args) \
                and not any(isinstance(a, ast.Starred) for a in expr.value.args):
            return self.norm(expr.value.args[expr.slice.value])  # alignment changes representation only (C04)
        if isinstance(expr, ast.Call) and not is_S(expr):
            name = self.dotted(expr.func)
            args = expr.args
            if name in ADD and len(args) >= 2:
                return p_add(self.norm(args[0]), self.norm(args[1]))
            if name in SUB and len(args) >= 2:
                return p_add(self.norm(args[0]), self.norm(args[1]), -1)
            if name in MUL and len(args) >= 2:
                return p_mul(self.norm(args[0]), self.norm(args[1]))
            if name in NEG and args:
                return p_mul(p_const(-1), self.norm(args[0]))
            if name in ZERO:
                return {}
            if name in WRAP and len(args) == 1 and not expr.keywords:
                return self.norm(args[0])
            if name == "where" and len(args) == 3:
                mask = self.masks.setdefault(U(args[0]), f"mask{len(self.masks)}")
                m = p_atom(mask)
                return p_add(p_mul(m, self.norm(args[1])), p_mul(p_add(p_const(1), m, -1), self.norm(args[2])))
        return p_atom("⟨" + text[:400] + "⟩")


def _show(poly: Poly) -> str:
    if not poly:
        return "0"
    parts = []
    for mono, coef in sorted(poly.items()):
        parts.append(f"{coef:+d}*" + "*".join(m if len(m) < 40 else m[:37] + "...⟩" for m in mono) if mono else f"{coef:+d}")
    return " ".join(parts)[:400]


def run(ctx) -> RuleResult:
    result = RuleResult(
        "R-DIVINV",
        "poly_divmod keeps dividend == quotient*divisor + remainder: base case, inductive step over one loop iteration "
        "with the loop state opaque (ring laws + where-as-mask + alignment is representation-only), returned pair is "
        "the loop state, the only in-place write into the running dividend is the exact-zero store of the cancelled term; "
        "poly_divide / poly_remainder return components 0 / 1 (R-OPS).  Termination is not decided",
    )
    modname = "numpoly.poly_function.divide.divmod"
    module = ctx.repo.module(modname)
    func = ctx.repo.function(modname, "poly_divmod")
    params = [a.arg for a in func.args.args]
    if len(params) < 2:
        raise AnalysisError("poly_divmod: fewer than two parameters")
    p_dividend, p_divisor = "π" + params[0], "π" + params[1]
    checked_step = checked_base = checked_ret = 0
    for path in ctx.paths(module, func):
        last = path[-1]
        if last.kind != "return" or last.node.value is None:
            continue
        raw_ret = getattr(last.node, "_orig", last.node).value if False else last.node.value
        if not (isinstance(raw_ret, ast.Tuple) and len(raw_ret.elts) == 2):
            # the recursive 0-d branch is checked below (shape of the forwarded call)
            continue
        heads = [s for s in path if s.kind == "iter"]
        if not all(isinstance(e, ast.Name) for e in raw_ret.elts):
            # the 0-d delegation:  floor, remainder = poly_divmod(x.ravel(), y.ravel(), ...) ; return floor[0], remainder[0]
            value = strip_tags(last.expand(raw_ret))
            ok = True
            for idx, elt in enumerate(value.elts):
                inner = elt
                good = (isinstance(inner, ast.Subscript) and isinstance(inner.value, ast.Subscript)
                        and isinstance(inner.value.slice, ast.Constant) and inner.value.slice.value == idx
                        and isinstance(inner.value.value, ast.Call)
                        and (ctx.dotted(module, inner.value.value.func) or "").endswith("poly_divmod"))
                if good:
                    call = inner.value.value
                    nz = Normaliser(ctx, module, {p_dividend: "dividend", p_divisor: "divisor"})
                    flat = []
                    for arg in call.args[:2]:
                        if isinstance(arg, ast.Call) and isinstance(arg.func, ast.Attribute) \
                                and arg.func.attr in ("ravel", "flatten", "reshape"):
                            arg = arg.func.value
                        flat.append(nz.norm(arg))
                    good = len(flat) == 2 and flat[0] == p_atom("dividend") and flat[1] == p_atom("divisor")
                ok = ok and good
            result.ob("0-d input: components 0/1 of poly_divmod on the flattened operands, in order", ok,
                      module.loc(last.orig), U(value)[:100])
            if not ok:
                result.add(Finding("R-DIVINV", module, "poly_divmod", last.node,
                                   "the 0-d branch does not return (poly_divmod(dividend.ravel(), divisor.ravel())[0][0], "
                                   "...[1][0]) with the operands in order",
                                   derivation=describe_path(path), construct="poly_divmod: 0-d delegation"))
            continue
        names = [e.id if isinstance(e, ast.Name) else None for e in raw_ret.elts]
        if None in names:
            raise AnalysisError("poly_divmod: the loop branch does not return two local names")
        qv, rv = names
        first = heads[0] if heads else last  # a counted loop can run zero times: the state before the loop is returned
        # the divisor variable: the local (other than q, r) whose value at the first loop head denotes the divisor parameter
        base_norm = Normaliser(ctx, module, {p_dividend: "dividend", p_divisor: "divisor"})
        dv = None
        for name, value in first.vars.items():
            if name in (qv, rv) or name in params:
                continue
            if base_norm.norm(strip_tags(value)) == p_atom("divisor"):
                dv = name
        if dv is None and base_norm.norm(strip_tags(first.vars.get(params[1], ast.Name(id=p_divisor)))) == p_atom("divisor"):
            dv = params[1]
        if dv is None:
            raise AnalysisError("poly_divmod: no loop-carried variable denotes the divisor at the loop head")
        # ---- base case
        q0 = base_norm.norm(strip_tags(first.vars[qv])) if qv in first.vars else None
        r0 = base_norm.norm(strip_tags(first.vars[rv])) if rv in first.vars else None
        if q0 is None or r0 is None:
            raise AnalysisError("poly_divmod: quotient / remainder not initialised before the loop")
        lhs = p_add(p_mul(q0, p_atom("divisor")), r0)
        ok = lhs == p_atom("dividend")
        checked_base += 1
        result.ob("base: quotient*divisor + remainder == dividend before the first iteration", ok, module.loc(first.orig),
                  _show(lhs))
        if not ok:
            result.add(Finding("R-DIVINV", module, "poly_divmod", first.node,
                               f"before the first iteration quotient*divisor + remainder is {_show(lhs)}, not the dividend",
                               derivation=describe_path(path), construct="poly_divmod: invariant base"))
        # ---- inductive step for every pair of consecutive loop heads on this path
        for pre, post in zip(heads, heads[1:]):
            atoms = {}
            for var, atom in ((qv, "Q"), (rv, "R"), (dv, "D")):
                value = pre.vars.get(var)
                if value is None:
                    raise AnalysisError(f"poly_divmod: {var} unbound at the loop head")
                atoms[U(strip_tags(value))] = atom
            nz = Normaliser(ctx, module, atoms)
            q1, r1, d1 = (nz.norm(strip_tags(post.vars[v])) for v in (qv, rv, dv))
            before = p_add(p_mul(p_atom("Q"), p_atom("D")), p_atom("R"))
            after = p_add(p_mul(q1, d1), r1)
            diff = p_add(after, before, -1)
            ok = not diff
            checked_step += 1
            result.ob("step: one iteration leaves quotient*divisor + remainder unchanged", ok, module.loc(post.orig),
                      f"Q'={_show(q1)[:90]} R'={_show(r1)[:90]} D'={_show(d1)[:30]}")
            if not ok:
                result.add(Finding(
                    "R-DIVINV", module, "poly_divmod", post.node,
                    f"one loop iteration changes quotient*divisor + remainder by {_show(diff)[:300]} (loop state Q, R, D opaque; "
                    f"Q' = {_show(q1)[:160]}; R' = {_show(r1)[:160]}; D' = {_show(d1)[:60]}): what is added to the quotient times "
                    f"the divisor is not what is subtracted from the running dividend",
                    derivation=describe_path(path), construct="poly_divmod: invariant step"))
            # in-place writes into the running dividend between the two heads
            i0, i1 = path.index(pre), path.index(post)
            for step in path[i0:i1]:
                if step.kind != "stmt" or not isinstance(step.node, (ast.Assign, ast.AugAssign)):
                    continue
                targets = step.node.targets if isinstance(step.node, ast.Assign) else [step.node.target]
                for target in targets:
                    if not isinstance(target, (ast.Subscript, ast.Attribute)):
                        continue
                    root = target
                    while isinstance(root, (ast.Subscript, ast.Attribute)):
                        root = root.value
                    if not (isinstance(root, ast.Name) and root.id in (qv, rv, dv)):
                        continue
                    ttxt = U(strip_tags(step.expand(target)))
                    mask_ok = any(ttxt.endswith(f"[{m}]") for m in nz.masks)
                    zero = isinstance(step.node, ast.Assign) and isinstance(step.node.value, ast.Constant) \
                        and step.node.value.value == 0 and not isinstance(step.node.value.value, bool)
                    key_ok = ".values[" in ttxt and ".keys[" in ttxt
                    good = root.id == rv and zero and mask_ok and key_ok
                    result.ob("in-place write into the loop state is the exact-zero store of the cancelled term", good,
                              module.loc(step.orig), U(step.node)[:80])
                    if not good:
                        result.add(Finding(
                            "R-DIVINV", module, "poly_divmod", step.node,
                            f"'{U(step.node)[:80]}' writes into the loop state outside the invariant-preserving update (accepted: "
                            f"<remainder>.values[<remainder>.keys[idx]][<mask of the update>] = 0)",
                            derivation=describe_path(path), construct="poly_divmod: in-place write into the loop state"))
        # ---- returned pair is the loop state (names checked above) in the order (quotient, remainder)
        checked_ret += 1
        qret = base_norm.norm(strip_tags(last.expand(raw_ret.elts[0])))
        rret = base_norm.norm(strip_tags(last.expand(raw_ret.elts[1])))
        total = p_add(p_mul(qret, p_atom("divisor")), rret)
        # fully expanded check along this path (0, 1, 2 ... iterations as enumerated)
        masks_seen = base_norm.masks
        ok = total == p_atom("dividend")
        result.ob(f"return: (quotient, remainder) of the loop state satisfy the identity after {len(heads) - 1} iteration(s)", ok,
                  module.loc(last.orig), _show(total)[:120])
        if not ok:
            result.add(Finding("R-DIVINV", module, "poly_divmod", last.node,
                               f"the returned pair gives quotient*divisor + remainder = {_show(total)[:300]} instead of the dividend "
                               f"after {len(heads) - 1} iteration(s)",
                               derivation=describe_path(path), construct="poly_divmod: returned pair"))
        del masks_seen
        # ---- the loop is left only when no division candidate remains for the state that is returned
        rfinal = U(strip_tags(last.expand(ast.Name(id=rv, ctx=ast.Load()))))
        dfinal = U(strip_tags(last.expand(ast.Name(id=dv, ctx=ast.Load()))))
        exhausted = False
        for test, pol in last.fact_items():
            test = strip_tags(test)
            if pol is True and isinstance(test, ast.Compare) and len(test.ops) == 1 and isinstance(test.ops[0], ast.Is) \
                    and isinstance(test.comparators[0], ast.Constant) and test.comparators[0].value is None \
                    and isinstance(test.left, ast.Call) \
                    and (ctx.dotted(module, test.left.func) or "").endswith(".get_division_candidate") \
                    and len(test.left.args) >= 2 and U(test.left.args[0]) == rfinal and U(test.left.args[1]) == dfinal:
                exhausted = True
        result.ob("the loop is left only when get_division_candidate(remainder, divisor) is None for the returned state",
                  exhausted, module.loc(last.orig), " / ".join(describe_path(path))[-120:])
        if not exhausted:
            result.add(Finding(
                "R-DIVINV", module, "poly_divmod", last.node,
                "a path returns (quotient, remainder) without having established that get_division_candidate(remainder, "
                "divisor) is None for the returned state (e.g. an iteration cap): the remainder may still contain terms the "
                "divisor divides, so exact multiples leave a non-zero remainder and constant divisors do not give r == 0",
                derivation=describe_path(path), construct="poly_divmod: loop exit without exhaustion"))
    checked_cancel = _cancellation(ctx, module, func, result)
    if not (checked_base and checked_step and checked_ret):
        raise AnalysisError(f"poly_divmod: loop structure not recognised (base={checked_base} step={checked_step} "
                            f"return={checked_ret})")
    result.floor = 6
    return result


def _cancellation(ctx, module, func, result) -> int:
    """The step cancels the dividend term it was computed from (what every progress argument starts from):
    candidate = dividend coefficient / divisor coefficient of the two returned term indices, the monomial of the step
    is  indeterminants ** (dividend exponent row - divisor exponent row)  of the same two indices, and the search
    function receives (running dividend, divisor) in that order."""
    n = 0
    gname = "get_division_candidate"
    try:
        gfunc = ctx.repo.function(module.name, gname)
    except AnalysisError:
        gfunc = None
    if gfunc is None:
        raise AnalysisError("poly_divmod: get_division_candidate not found")
    gparams = [a.arg for a in gfunc.args.args]
    x1, x2 = "π" + gparams[0], "π" + gparams[1]
    seen_results = set()
    record_fields: list = []
    unanalysed = []
    for path in ctx.paths_auto(module, gfunc):
      # where a (idx1, idx2, include, candidate) result is produced: returned, or yielded / collected by a private
      # generator that the function takes the first element of (next(gen, None))
      producers = []
      for step in path:
        node = step.node
        tup = None
        if step.kind == "return" and isinstance(node.value, ast.Tuple):
            tup = node.value
        elif step.kind == "return" and isinstance(node.value, ast.Call) and isinstance(node.value.func, ast.Name) \
                and node.value.func.id in RECORDS and len(RECORDS[node.value.func.id]) == 4:
            # a private record (NamedTuple / dataclass) with the four values as fields, in field order
            fields = RECORDS[node.value.func.id]
            bound = {kw.arg: kw.value for kw in node.value.keywords if kw.arg}
            for pos, arg in enumerate(node.value.args):
                bound.setdefault(fields[pos], arg)
            if all(f in bound for f in fields):
                tup = ast.Tuple(elts=[bound[f] for f in fields], ctx=ast.Load())
                record_fields[:] = fields
        elif step.kind == "stmt" and isinstance(node, ast.Expr) and isinstance(node.value, ast.Yield) \
                and isinstance(node.value.value, ast.Tuple):
            tup = node.value.value
        elif step.kind == "stmt" and isinstance(node, ast.Expr) and isinstance(node.value, ast.Call) \
                and isinstance(node.value.func, ast.Attribute) and node.value.func.attr == "append" \
                and len(node.value.args) == 1 and isinstance(node.value.args[0], ast.Tuple):
            tup = node.value.args[0]
        if tup is not None and len(tup.elts) == 4 and (id(tup), id(step.vars)) not in seen_results:
            seen_results.add((id(tup), id(step.vars)))
            producers.append((step, tup))
      for last, tup in producers[:1]:
        i1, i2, inc, cand = (strip_tags(last.expand(e)) for e in tup.elts)
        n += 1
        want_num = f"{x1}.coefficients[{U(i1)}]"
        want_den = f"{x2}.coefficients[{U(i2)}]"
        num = den = None
        if isinstance(cand, ast.BinOp) and isinstance(cand.op, ast.Div):
            num, den = cand.left, cand.right
        elif isinstance(cand, ast.Call) and (ctx.dotted(module, cand.func) or "") in ("numpy.true_divide", "numpy.divide") \
                and len(cand.args) >= 2:
            num, den = cand.args[0], cand.args[1]
        if num is None:
            helper_call = next((c for c in ast.walk(cand) if isinstance(c, ast.Call) and isinstance(c.func, ast.Name)
                                and c.func.id in module.functions), None)
            if helper_call is not None:
                # the ratio is computed inside a same-module helper that cannot be inlined (return inside a loop): this
                # clause gives no verdict for it (recorded in the evidence), the invariant clauses are unaffected
                unanalysed.append(f"candidate computed by {helper_call.func.id}(...)")
                n -= 0
                continue
            raise AnalysisError(f"get_division_candidate: candidate is not a quotient: {U(cand)[:80]}")
        if isinstance(den, ast.Call) and (ctx.dotted(module, den.func) or "") in ("numpy.where",) and len(den.args) == 3:
            fill = den.args[2]
            fill_ok = isinstance(fill, ast.Constant) and isinstance(fill.value, (int, float)) and fill.value != 0
            den_core = den.args[1] if fill_ok and U(den.args[0]) == U(inc) else None
        else:
            den_core = den
        ok = U(num) == want_num and den_core is not None and U(den_core) == want_den
        result.ob("candidate = dividend coefficient [idx1] / divisor coefficient [idx2] of the returned indices", ok,
                  module.loc(last.orig), f"{U(num)[:50]} / {U(den)[:70]}")
        if not ok:
            result.add(Finding(
                "R-DIVINV", module, gname, last.node,
                f"the candidate '{U(cand)[:120]}' is not {want_num} / {want_den} (masked by the returned include): the step "
                f"then does not cancel term idx1 of the dividend, so quotients of constant divisors are wrong and the loop "
                f"need not make progress",
                derivation=describe_path(path), construct="get_division_candidate: candidate ratio"))
        conj = []
        stack = [inc]
        while stack:
            node = stack.pop()
            if isinstance(node, ast.BinOp) and isinstance(node.op, ast.BitAnd):
                stack.extend([node.left, node.right])
            elif isinstance(node, ast.Call) and (ctx.dotted(module, node.func) or "") == "numpy.logical_and":
                stack.extend(node.args[:2])
            else:
                conj.append(node)
        nonzero = any(isinstance(c, ast.Compare) and len(c.ops) == 1 and isinstance(c.ops[0], ast.NotEq)
                      and U(c.left) == want_num and isinstance(c.comparators[0], ast.Constant) and c.comparators[0].value == 0
                      for c in conj)
        result.ob("include implies a non-zero dividend coefficient at idx1", nonzero, module.loc(last.orig), U(inc)[:90])
        if not nonzero:
            result.add(Finding(
                "R-DIVINV", module, gname, last.node,
                f"the returned mask '{U(inc)[:100]}' does not contain the conjunct {want_num} != 0: a step would be taken "
                f"for elements whose term is already zero (no progress, non-termination)",
                derivation=describe_path(path), construct="get_division_candidate: include mask"))
    if unanalysed:
        result.info["cancellation_clause_not_analysed"] = sorted(set(unanalysed))
    if n == 0:
        raise AnalysisError("get_division_candidate: no path returns (idx1, idx2, include, candidate)")
    # caller side: monomial of the step
    m = 0
    params = [a.arg for a in func.args.args]
    for path in ctx.paths(module, func):
        heads = [s for s in path if s.kind == "iter"]
        last = path[-1]
        if len(heads) < 2 or last.kind != "return":
            continue
        pre, post = heads[0], heads[1]
        raw_ret = last.node.value
        if not (isinstance(raw_ret, ast.Tuple) and len(raw_ret.elts) == 2 and all(isinstance(e, ast.Name) for e in raw_ret.elts)):
            continue
        qv, rv = (e.id for e in raw_ret.elts)
        rtxt = U(strip_tags(pre.vars[rv]))
        qpost = strip_tags(post.vars[qv])
        calls = [c for c in ast.walk(qpost) if isinstance(c, ast.Call)
                 and (ctx.dotted(module, c.func) or "").endswith("." + gname)]
        if not calls:
            # the quotient update is missing or does not use the candidate: the invariant step reports that
            qpost = strip_tags(post.vars[rv])
            calls = [c for c in ast.walk(qpost) if isinstance(c, ast.Call)
                     and (ctx.dotted(module, c.func) or "").endswith("." + gname)]
        if not calls:
            if any(f.construct == "poly_divmod: invariant step" for f in result.findings):
                m += 1
                continue
            raise AnalysisError("poly_divmod: neither update of the loop state uses get_division_candidate(...)")
        call = calls[0]
        ctxt = U(call)
        args_ok = len(call.args) >= 2 and U(call.args[0]) == rtxt
        dtxt = U(call.args[1]) if len(call.args) >= 2 else "?"
        m += 1
        result.ob("get_division_candidate receives (running dividend, divisor) in that order", args_ok,
                  module.loc(post.orig), f"({U(call.args[0])[:40]}, {dtxt[:40]})")
        if not args_ok:
            result.add(Finding("R-DIVINV", module, "poly_divmod", call,
                               "get_division_candidate is not called with the running dividend first and the divisor second",
                               derivation=describe_path(path), construct="poly_divmod: candidate search operands"))
            continue
        pows = [b for b in ast.walk(qpost) if isinstance(b, ast.BinOp) and isinstance(b.op, ast.Pow)
                and isinstance(b.left, ast.Attribute) and b.left.attr == "indeterminants"]
        want = f"{rtxt}.exponents[{ctxt}[0]] - {dtxt}.exponents[{ctxt}[1]]"
        wants = {want}
        if len(record_fields) == 4:
            wants.add(f"{rtxt}.exponents[{ctxt}.{record_fields[0]}] - {dtxt}.exponents[{ctxt}.{record_fields[1]}]")

        def short(text):
            return text.replace(ctxt, "<cand>").replace(rtxt, "<R>").replace(dtxt, "<D>")

        # alternative spelling: the monomial term built directly from its attributes
        builds = [c for c in ast.walk(qpost) if isinstance(c, ast.Call)
                  and (ctx.dotted(module, c.func) or "").rsplit(".", 1)[-1] in ("polynomial_from_attributes", "from_attributes")
                  and any(w in U(c) for w in wants)]
        if not pows and not builds:
            raise AnalysisError("poly_divmod: monomial of the step is neither '<poly>.indeterminants ** <exponent difference>' "
                                "nor a polynomial_from_attributes(exponents=[<exponent difference>], ...) term")
        for pw in pows:
            base_ok = U(pw.left.value) in (rtxt, dtxt)
            ok = U(pw.right) in wants and base_ok
            result.ob("step monomial = indeterminants ** (dividend row idx1 - divisor row idx2)", ok, module.loc(post.orig),
                      short(U(pw.right))[:90])
            if not ok:
                result.add(Finding(
                    "R-DIVINV", module, "poly_divmod", pw,
                    f"the monomial of the step is built from '{short(U(pw.right))[:120]}' "
                    f"instead of <R>.exponents[<cand>[0]] - <D>.exponents[<cand>[1]] (R = running dividend, D = divisor, cand = "
                    f"get_division_candidate(R, D)): the step does not cancel the dividend term it was computed from",
                    derivation=describe_path(path), construct="poly_divmod: step monomial"))
        for build in builds:
            from .common import arg_or_kw

            names = arg_or_kw(build, 2, "names")
            ntxt = U(names) if names is not None else ""
            ok = any(ntxt.startswith(base + suffix) for base in (rtxt, dtxt) for suffix in (".names", ".indeterminants"))
            result.ob("step monomial built from attributes carries the operands' names", ok, module.loc(post.orig),
                      short(ntxt)[:60] or "names omitted")
            if not ok:
                result.add(Finding(
                    "R-DIVINV", module, "poly_divmod", build,
                    f"the monomial of the step is built with polynomial_from_attributes(...) "
                    f"{'without names=' if names is None else 'with names=' + short(ntxt)[:40]}: its exponent columns follow the "
                    f"aligned operands' names, so it must be given <R>.names / <D>.names - with the default q0..qN the term is "
                    f"in other indeterminates whenever the operands' names are not exactly q0..qN (retain_names=False, custom "
                    f"names) and the subtraction no longer cancels the dividend term (wrong remainder, non-termination)",
                    derivation=describe_path(path), construct="poly_divmod: step monomial names"))
    if m == 0:
        raise AnalysisError("poly_divmod: no path with a complete loop iteration")
    return n + m
