"""R-DELEGATE / R-ORDER / R-FWD / R-TWIN - a wrapper agrees with the numpy function it mirrors."""
from __future__ import annotations

import ast
from typing import Dict, List, Optional, Set

from .. import AnalysisError, numpyfacts
from ..paths import PARAM, U, describe_path, is_S, walk_shared
from ..report import Finding, RuleResult
from .common import calls_in, is_param, kwarg, source_params, step_calls
from .reg import ALIASES

STORAGE_MARKS = (".values", ".coefficients", ".tonumpy()", "sortable_proxy(")
SIMPLE_DISPATCH = "numpoly.dispatch.simple_dispatch"
NONCOMMUTATIVE = {
    "subtract", "true_divide", "divide", "floor_divide", "remainder", "mod", "divmod", "power",
    "greater", "greater_equal", "less", "less_equal", "isclose", "allclose", "matmul", "outer",
    "copyto", "fmod", "float_power", "ldexp", "arctan2",
}
# parameters that do not determine values / shape of the result (DESIGN R-FWD)
NOT_VALUE = {"out", "where", "dtype", "order", "subok", "casting", "like", "kwargs", "args"}
# functions for which 'order' decides which element lands where (not just the memory layout)
ORDER_MATTERS = {"reshape", "ravel", "flatten"}
# numpy helpers that may touch storage without being "the" delegate
HELPERS = {"asarray", "array", "asanyarray", "ascontiguousarray", "result_type", "common_type", "dtype",
           "broadcast_shapes", "ones", "zeros", "empty", "isin", "argsort"}


def _short_targets(reg) -> Set[str]:
    names: Set[str] = set()
    for target in reg.targets:
        if target.startswith("builtin:"):
            continue
        short = target.split(".")[-1]
        names.add(short)
        names.update(ALIASES.get(short, []))
    return names


def _touches_storage(expr: ast.AST) -> bool:
    text = U(expr)
    return any(mark in text for mark in STORAGE_MARKS)


def _storage_delegates(ctx, module, expanded, into, own=()):
    """numpy callables (short names) applied to coefficient storage inside a provenance tree."""
    for call in calls_in(expanded):
        cname = ctx.dotted(module, call.func)
        if cname == SIMPLE_DISPATCH:
            nf = kwarg(call, "numpy_func") or (call.args[0] if call.args else None)
            dn = ctx.dotted(module, nf) if nf is not None else None
            if dn and dn.startswith("numpy."):
                into.setdefault(dn.split(".")[-1], call)
            continue
        if cname is None and isinstance(call.func, ast.Attribute) and call.func.attr in own \
                and _touches_storage(call.func.value):
            # method spelling on the storage:  x.values.diagonal(...)  is  numpy.diagonal(x.values, ...)
            into.setdefault(call.func.attr, call)
            continue
        if cname is None or not cname.startswith("numpy."):
            continue
        short = cname.split(".")[-1]
        if short in HELPERS:
            continue
        operands = list(call.args) + [kw.value for kw in call.keywords if kw.arg != "out"]
        if any(_touches_storage(op) for op in operands):
            into.setdefault(short, call)


def run_delegate(ctx) -> RuleResult:
    result = RuleResult(
        "R-DELEGATE",
        "a registered wrapper whose *result* (return value, values stored into the output, out= targets) is "
        "computed by numpy callables applied to coefficient storage uses the numpy function it is registered "
        "for among them (simple_dispatch wrappers: numpy_func is the namesake)",
    )
    seen = set()
    for reg in ctx.regs:
        if id(reg.func) in seen:
            continue
        seen.add(id(reg.func))
        module, func = reg.module, reg.func
        names = _short_targets(reg)
        if not names:
            continue
        delegates: Dict[str, ast.AST] = {}
        try:
            paths = ctx.paths(module, func, max_iter=1)
        except AnalysisError:
            paths = []
        for path in paths:
            for step in path:
                if step.kind == "return" and step.node.value is not None:
                    _storage_delegates(ctx, module, step.expand(step.node.value), delegates, names)
                elif step.kind == "stmt" and isinstance(step.node, (ast.Assign, ast.AugAssign)):
                    targets = step.node.targets if isinstance(step.node, ast.Assign) else [step.node.target]
                    if any(isinstance(t, ast.Subscript) for t in targets):
                        _storage_delegates(ctx, module, step.expand(step.node.value), delegates, names)
                if step.kind in ("stmt", "return", "assume"):
                    for call in step_calls(step):
                        if kwarg(call, "out") is not None:
                            _storage_delegates(ctx, module, step.expand(call), delegates, names)
        if not delegates:
            continue
        ok = bool(set(delegates) & names)
        where = module.loc(func)
        result.ob(f"{func.name} (registered for {sorted(names)}) computes its result with {sorted(delegates)}", ok, where, "")
        if not ok:
            first = next(iter(delegates.values()))
            result.add(Finding(
                "R-DELEGATE", module, func.name, func,
                f"{func.name} is registered for numpy.{'/'.join(sorted(names))} but its result is computed by "
                f"numpy.{'/'.join(sorted(delegates))} applied to the coefficient storage, never by the function it mirrors",
                construct=f"{func.name}: delegates {sorted(delegates)}"))
    # a wrapper that is not one of the natively implemented functions applies the numpy function it mirrors
    seen = set()
    for reg in ctx.regs:
        if id(reg.func) in seen:
            continue
        seen.add(id(reg.func))
        module, func = reg.module, reg.func
        names = _short_targets(reg)
        if not names:
            continue
        if func.name in NATIVE_IMPLEMENTATIONS:
            result.exception(func.name, NATIVE_IMPLEMENTATIONS[func.name])
            continue
        referenced = set()
        todo, done = [func], set()
        while todo:
            cur = todo.pop()
            if id(cur) in done or len(done) > 12:
                continue
            done.add(id(cur))
            for stmt in cur.body:
                for node in ast.walk(stmt):
                    if isinstance(node, (ast.Attribute, ast.Name)):
                        dotted = ctx.dotted(module, node) or ""
                        if dotted.startswith("numpy."):
                            referenced.add(dotted.split(".")[-1])
                        if dotted == SIMPLE_DISPATCH:
                            referenced.add("<dispatch>")
                    if isinstance(node, ast.Call) and isinstance(node.func, ast.Attribute) and node.func.attr in names \
                            and not (ctx.dotted(module, node.func) or "").startswith(("numpy.", "numpoly.")) \
                            and _touches_storage(node.func.value):
                        referenced.add(node.func.attr)  # ndarray method spelling of the mirrored function on the storage
                    if isinstance(node, ast.Call) and isinstance(node.func, ast.Name) and node.func.id in module.functions \
                            and node.func.id != func.name:
                        todo.append(module.functions[node.func.id])
        ok = bool(referenced & names) or "<dispatch>" in referenced
        result.ob(f"{func.name} applies numpy.{'/'.join(sorted(names))} (or dispatches it)", ok, module.loc(func), "")
        if not ok:
            result.add(Finding(
                "R-DELEGATE", module, func.name, func,
                f"{func.name} is registered for numpy.{'/'.join(sorted(names))} but no longer applies that function (nor "
                f"dispatches it): whatever it calls instead has its own semantics (which axis is cut, which dtype is kept, "
                f"how operands broadcast), so numpy.{sorted(names)[0]}(poly) stops behaving like numpy.{sorted(names)[0]}",
                construct=f"{func.name}: namesake not applied"))
    result.floor = 40
    return result


# registered functions that implement the operation themselves instead of applying their numpy namesake
# (confirmed by reading, one reason each); every other wrapper must apply the function it mirrors
NATIVE_IMPLEMENTATIONS = {
    "array_repr": "formats through to_string and numpy.array2string",
    "array_str": "formats through to_string and numpy.array2string",
    "det": "Laplace expansion over polynomial elements",
    "ediff1d": "difference of shifted polynomial slices, joined by hand",
    "full": "fills a new ndpoly key by key",
    "full_like": "fills a new ndpoly key by key",
    "inner": "sum(multiply(a, b), axis=-1)",
    "matmul": "reshape + broadcast + multiply + sum",
    "maximum": "term walk in glexsort order + where",
    "minimum": "term walk in glexsort order + where",
    "multiply": "C multiplier over exponent pairs",
    "outer": "multiply of reshaped operands",
    "power": "repeated multiply",
    "prod": "fold of multiply along the axis",
    "square": "multiply(x, x)",
    "poly_divide": "polynomial long division (documented: / is not numpy.true_divide)",
    "poly_divmod": "polynomial long division",
    "poly_remainder": "polynomial long division",
}


def run_order(ctx) -> RuleResult:
    result = RuleResult(
        "R-ORDER",
        "operand i of a non-commutative numpy delegate (and element i of inputs=) originates from "
        "parameter i of the wrapper, through alignment calls positionally",
    )
    seen = set()
    for reg in ctx.regs:
        if id(reg.func) in seen:
            continue
        seen.add(id(reg.func))
        module, func = reg.module, reg.func
        params = [a.arg for a in func.args.posonlyargs + func.args.args]
        if len(params) < 2:
            continue
        p0, p1 = params[0], params[1]
        try:
            paths = ctx.paths(module, func, max_iter=1)
        except AnalysisError:
            continue
        for path in paths:
            for step in path:
                for call in step_calls(step):
                    cname = ctx.dotted(module, call.func)
                    operands = None
                    label = None
                    if cname == SIMPLE_DISPATCH:
                        inputs = kwarg(call, "inputs") or (call.args[1] if len(call.args) > 1 else None)
                        nf = kwarg(call, "numpy_func") or (call.args[0] if call.args else None)
                        dn = ctx.dotted(module, nf) if nf is not None else ""
                        if isinstance(inputs, (ast.Tuple, ast.List)) and len(inputs.elts) >= 2 and dn and \
                                dn.split(".")[-1] in NONCOMMUTATIVE:
                            operands = [step.expand(e) for e in inputs.elts[:2]]
                            label = f"simple_dispatch({dn}, inputs=...)"
                    elif cname and cname.split(".")[-1] in NONCOMMUTATIVE and len(call.args) >= 2 and (
                        cname.startswith("numpy.") or cname.startswith("numpoly.")
                    ):
                        operands = [step.expand(a) for a in call.args[:2]]
                        label = cname
                    if operands is None:
                        continue
                    src0 = set(source_params(ctx, module, operands[0]))
                    src1 = set(source_params(ctx, module, operands[1]))
                    if not ((src0 | src1) & {p0, p1}):
                        continue  # operands are not (only) the wrapper's own operands
                    bad = (p1 in src0 and p0 not in src0) or (p0 in src1 and p1 not in src1)
                    result.ob(f"{func.name}: {label} operands in parameter order", not bad, module.loc(step.orig),
                              f"{U(operands[0])[:60]} | {U(operands[1])[:60]}")
                    if bad:
                        result.add(Finding(
                            "R-ORDER", module, func.name, call,
                            f"{label} receives its operands swapped: operand 0 derives from '{'/'.join(sorted(src0))}', "
                            f"operand 1 from '{'/'.join(sorted(src1))}' (parameters are {p0}, {p1})",
                            derivation=describe_path(path)))
    result.floor = 20
    return result


def _numpy_params(reg) -> Set[str]:
    out: Set[str] = set()
    for target in reg.targets:
        if target.startswith("builtin:"):
            continue
        sig = numpyfacts.signature(target)
        if sig is not None:
            out.update(sig.parameters)
    return out


def run_fwd(ctx) -> RuleResult:
    result = RuleResult(
        "R-FWD",
        "every value/shape-determining parameter a wrapper shares with the numpy signature is used, "
        "and a parameter passed on by keyword is passed under its own name",
    )
    seen = set()
    funcs = []
    for reg in ctx.regs:
        if id(reg.func) not in seen:
            seen.add(id(reg.func))
            funcs.append((reg.module, reg.func, _numpy_params(reg)))
    # helpers and non-registered public functions: cross-wiring check only
    for module, qual, func in ctx.repo.analysed_functions():
        if id(func) not in seen and not module.is_pyx:
            seen.add(id(func))
            funcs.append((module, func, None))
    for module, func, np_params in funcs:
        args = func.args
        params = [a.arg for a in args.posonlyargs + args.args + args.kwonlyargs]
        loads = {n.id for n in ast.walk(func) if isinstance(n, ast.Name) and isinstance(n.ctx, ast.Load)}
        dels = {n.id for n in ast.walk(func) if isinstance(n, ast.Name) and isinstance(n.ctx, ast.Del)}
        qual = getattr(func, "_qualname", func.name)
        if np_params is not None:
            for pname in params:
                if (pname in NOT_VALUE and not (pname == "order" and func.name in ORDER_MATTERS)) or pname not in np_params:
                    continue
                used = pname in loads
                result.ob(f"{qual}: parameter '{pname}' is used", used, module.loc(func), "")
                if not used:
                    result.add(Finding(
                        "R-FWD", module, qual, func,
                        f"parameter '{pname}' (also a parameter of the numpy function) is "
                        f"{'deleted' if pname in dels else 'never used'}: the result cannot depend on it",
                        construct=f"def {func.name}: unused {pname}"))
        # the namesake numpy call receives every shared value/shape parameter
        if np_params is not None:
            names = set()
            for reg in ctx.regs:
                if reg.func is func:
                    names |= _short_targets(reg)
            shared = [p for p in params if p in np_params and (p not in NOT_VALUE or (p == "order" and func.name in ORDER_MATTERS))]
            if shared and names:
                try:
                    paths = ctx.paths(module, func, max_iter=1)
                except AnalysisError:
                    paths = []
                verdict = {}
                for path in paths:
                    texts = []
                    first_call = None
                    for step in path:
                        for call in step_calls(step):
                            cname = ctx.dotted(module, call.func) or ""
                            recursive = cname == f"{module.name}.{qual}" or (
                                cname.startswith("numpoly.") and cname.split(".")[-1] == func.name
                                and ctx.res.public(func.name).node is func)
                            if (cname.startswith("numpy.") and cname.split(".")[-1] in names) or cname == SIMPLE_DISPATCH \
                                    or recursive:
                                first_call = first_call or (step, call, cname)
                                texts.append(U(step.expand(call)))
                                for kw in call.keywords:
                                    if kw.arg is None and isinstance(kw.value, ast.Name):
                                        for _target, stored in step.muts.get(kw.value.id, ()):
                                            texts.append(U(_target) + U(stored))
                    if first_call is None:
                        continue
                    last = path[-1]
                    fact_text = " ".join(U(node) for node, _pol in last.fact_items())
                    for pname in shared[1:]:
                        needle = PARAM + pname
                        ok = any(needle in t for t in texts) or needle in fact_text
                        entry = verdict.setdefault(pname, [True, None])
                        if not ok and entry[0]:
                            verdict[pname] = [False, (first_call, path)]
                for pname, (ok, info) in verdict.items():
                    result.ob(f"{qual}: '{pname}' reaches the call of the mirrored numpy function on every path", ok,
                              module.loc(func), "")
                    if not ok:
                        (step, call, cname), path = info
                        result.add(Finding(
                            "R-FWD", module, qual, call,
                            f"parameter '{pname}' neither reaches the call of {cname} nor decides a branch on this "
                            f"path: the result is computed as if '{pname}' had its default",
                            derivation=describe_path(path)))
        # cross-wiring: k=<other parameter> where k is itself a parameter of this function
        pset = set(params)
        for call in calls_in(func):
            for kw in call.keywords:
                if kw.arg in pset and isinstance(kw.value, ast.Name) and kw.value.id in pset and kw.value.id != kw.arg:
                    # only suspicious when the callee has both names or is numpy/simple_dispatch
                    result.ob(f"{qual}: {kw.arg}={kw.value.id}", False, module.loc(call), "")
                    result.add(Finding(
                        "R-FWD", module, qual, call,
                        f"parameter '{kw.value.id}' is passed as {kw.arg}= although '{kw.arg}' is a "
                        f"parameter of its own (cross-wired keyword)"))
    result.floor = 60
    return result


def run_twin(ctx) -> RuleResult:
    result = RuleResult(
        "R-TWIN",
        "where one branch calls numpoly.f and its sibling branch calls numpy.f for the same result, "
        "both receive the same arguments in the same order",
    )
    n = 0
    for module, qual, func in ctx.repo.analysed_functions():
        for node in ast.walk(func):
            if not isinstance(node, ast.If) or not node.orelse:
                continue
            pairs = []
            for b1 in node.body:
                for b2 in node.orelse:
                    if isinstance(b1, ast.Assign) and isinstance(b2, ast.Assign) and U(b1.targets[0]) == U(b2.targets[0]) \
                            and isinstance(b1.value, ast.Call) and isinstance(b2.value, ast.Call):
                        pairs.append((b1.value, b2.value))
                    if isinstance(b1, ast.Return) and isinstance(b2, ast.Return) and isinstance(b1.value, ast.Call) \
                            and isinstance(b2.value, ast.Call):
                        pairs.append((b1.value, b2.value))
            for c1, c2 in pairs:
                n1, n2 = ctx.dotted(module, c1.func), ctx.dotted(module, c2.func)
                if not n1 or not n2:
                    continue
                roots = {n1.split(".")[0], n2.split(".")[0]}
                if roots != {"numpy", "numpoly"} or n1.split(".")[-1] != n2.split(".")[-1]:
                    continue
                n += 1
                a1 = [U(a) for a in c1.args]
                a2 = [U(a) for a in c2.args]
                ok = a1 == a2
                result.ob(f"{qual}: {n1} / {n2} receive the same operands", ok, module.loc(node), f"{a1} vs {a2}")
                if not ok:
                    result.add(Finding(
                        "R-TWIN", module, qual, c1,
                        f"the polynomial branch calls {n1}({', '.join(a1)}) but the numeric branch "
                        f"{n2}({', '.join(a2)}): the two branches disagree on operand order"))
        # expression form:  numpoly.f(a, b) if c else numpy.f(a, b)   /   (numpoly.f if c else numpy.f)(a, b)
        for node in ast.walk(func):
            cands = []
            if isinstance(node, ast.IfExp):
                cands.append((node.body, node.orelse))
            if isinstance(node, ast.If) and node.orelse:
                for b1 in node.body:
                    for b2 in node.orelse:
                        if isinstance(b1, ast.Assign) and isinstance(b2, ast.Assign) and U(b1.targets[0]) == U(b2.targets[0]) \
                                and not isinstance(b1.value, ast.Call) and not isinstance(b2.value, ast.Call):
                            cands.append((b1.value, b2.value))
            for e1, e2 in cands:
                calls = isinstance(e1, ast.Call) and isinstance(e2, ast.Call)
                f1, f2 = (e1.func, e2.func) if calls else (e1, e2)
                if not isinstance(f1, (ast.Attribute, ast.Name)) or not isinstance(f2, (ast.Attribute, ast.Name)):
                    continue
                n1, n2 = ctx.dotted(module, f1), ctx.dotted(module, f2)
                if not n1 or not n2:
                    continue
                if {n1.split(".")[0], n2.split(".")[0]} != {"numpy", "numpoly"} or n1.split(".")[-1] != n2.split(".")[-1]:
                    continue
                n += 1
                if calls:
                    a1, a2 = [U(a) for a in e1.args], [U(a) for a in e2.args]
                    ok = a1 == a2
                    result.ob(f"{qual}: {n1} / {n2} receive the same operands", ok, module.loc(node), f"{a1} vs {a2}")
                    if not ok:
                        result.add(Finding(
                            "R-TWIN", module, qual, e1,
                            f"the polynomial branch calls {n1}({', '.join(a1)}) but the numeric branch "
                            f"{n2}({', '.join(a2)}): the two branches disagree on operand order"))
                else:
                    result.ob(f"{qual}: {n1} / {n2} are selected as callables and applied to one argument list", True,
                              module.loc(node), "")
    result.info["twin_sites"] = n
    if n == 0:
        raise AnalysisError("R-TWIN: no numpy/numpoly twin branch found (confirmed 1 in call())")
    result.floor = 1
    return result
