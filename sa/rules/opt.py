"""R-OPT - the option table (C14) and who reads what (C15, C16, C07).

O1 snapshot-before-set, O2 restore-in-finally from exactly the snapshot,
O3 validate-all-then-mutate, O4 detached copies, O5 who-may-write,
O6 who-may-read (layering), O7 key/argument pairing, O8 pinned retain flags.
"""
from __future__ import annotations

import ast
from typing import Dict, List, Optional, Set

from .. import AnalysisError
from ..paths import MUTATORS, U, describe_path, is_S, walk_shared
from ..report import Finding, RuleResult
from .common import is_param, kwarg

OPT = "numpoly.option"
TABLE = f"{OPT}._NUMPOLY_OPTIONS"
DEFAULTS = f"{OPT}.GLOBAL_OPTIONS_DEFAULTS"
GET = f"{OPT}.get_options"
SET = f"{OPT}.set_options"
COPY_FUNCS = {"dict", "copy.copy", "copy.deepcopy"}


def _is_copy_of(ctx, module, expr, table: str, _depth: int = 0) -> bool:
    """expr is a detached copy of the option table ``table``."""
    if isinstance(expr, ast.Call) and not is_S(expr) and not expr.args and not expr.keywords and _depth < 3 \
            and isinstance(expr.func, ast.Name):
        # a private zero-argument function whose every return is such a copy
        binding = ctx.res.resolve_expr(module, expr.func)
        if binding.kind == "def" and binding.node.name != "get_options":
            returns = [n.value for n in ast.walk(binding.node) if isinstance(n, ast.Return)]
            if returns and all(v is not None and _is_copy_of(ctx, binding.module, v, table, _depth + 1) for v in returns):
                return True
    if isinstance(expr, ast.Call) and not is_S(expr):
        if isinstance(expr.func, ast.Attribute) and expr.func.attr == "copy" and not expr.args:
            return ctx.dotted(module, expr.func.value) == table
        name = ctx.dotted(module, expr.func) or (U(expr.func) if isinstance(expr.func, ast.Name) else None)
        if name in COPY_FUNCS or (isinstance(expr.func, ast.Name) and expr.func.id == "dict"):
            return len(expr.args) == 1 and ctx.dotted(module, expr.args[0]) == table
        if name == GET:
            defaults = kwarg(expr, "defaults") or (expr.args[0] if expr.args else None)
            want_defaults = table == DEFAULTS
            is_true = isinstance(defaults, ast.Constant) and bool(defaults.value)
            return is_true == want_defaults if defaults is not None else not want_defaults
    if isinstance(expr, ast.Dict) and len(expr.keys) == 1 and expr.keys[0] is None:
        return ctx.dotted(module, expr.values[0]) == table
    return False


def _mutation_of(ctx, module, step, tables) -> Optional[str]:
    """If the step mutates one of ``tables`` return a description."""
    node = step.node
    if step.kind != "stmt":
        return None
    targets = []
    if isinstance(node, ast.Assign):
        targets = node.targets
    elif isinstance(node, (ast.AugAssign, ast.AnnAssign)):
        targets = [node.target]
    elif isinstance(node, ast.Delete):
        targets = node.targets
    for target in targets:
        root = target
        while isinstance(root, ast.Subscript):
            root = root.value
        if root is not target and ctx.dotted(module, step.expand(root)) in tables:
            return U(target)
        if isinstance(target, ast.Name) and ctx.dotted(module, target) in tables:
            return U(target)
    for sub in ast.walk(node):
        if isinstance(sub, ast.Call) and isinstance(sub.func, ast.Attribute) and sub.func.attr in MUTATORS:
            if ctx.dotted(module, step.expand(sub.func.value)) in tables:
                return U(sub.func)
    return None


def _calls(ctx, module, step, name):
    out = []
    if step.kind in ("stmt", "return"):
        for sub in ast.walk(step.node):
            if isinstance(sub, ast.Call) and ctx.dotted(module, sub.func) == name:
                out.append(sub)
    return out


# ---------------------------------------------------------------------------


def _o1_o2(ctx, result, module):
    func = ctx.repo.function(OPT, "global_options")
    qual = "global_options"
    paths = ctx.paths(module, func)
    yields = [n for n in ast.walk(func) if isinstance(n, (ast.Yield, ast.YieldFrom))]
    if len(yields) != 1:
        raise AnalysisError("global_options: expected exactly one yield")
    # structural: the yield lies inside a try whose finally restores
    cur = yields[0]
    tries = []
    while cur is not func:
        cur = cur._parent
        if isinstance(cur, ast.Try) and cur.finalbody:
            tries.append(cur)
        elif isinstance(cur, ast.Try) and cur.orelse and any(
                (h.type is None or (isinstance(h.type, ast.Name) and h.type.id == "BaseException"))
                and h.body and isinstance(h.body[-1], ast.Raise) and h.body[-1].exc is None for h in cur.handlers):
            # try / except BaseException: <restore>; raise / else: <restore>  covers the same exits as try/finally
            # (what each arm restores is checked path by path below)
            tries.append(cur)
    ok_struct = bool(tries)
    # equivalent idiom: the restore is registered on an ExitStack whose with-block encloses the yield
    stack_names = set()
    cur = yields[0]
    while cur is not func:
        cur = cur._parent
        if isinstance(cur, ast.With):
            for item in cur.items:
                if isinstance(item.context_expr, ast.Call) and U(item.context_expr.func).split(".")[-1] == "ExitStack" \
                        and isinstance(item.optional_vars, ast.Name):
                    stack_names.add(item.optional_vars.id)
    callbacks = [c for c in ast.walk(func) if isinstance(c, ast.Call) and isinstance(c.func, ast.Attribute)
                 and c.func.attr == "callback" and isinstance(c.func.value, ast.Name) and c.func.value.id in stack_names
                 and c.args and ctx.dotted(module, c.args[0]) == SET]
    if callbacks:
        ok_struct = True
    result.ob("O2 yield inside try/finally", ok_struct, module.loc(yields[0]), "")
    if not ok_struct:
        result.add(Finding("R-OPT", module, qual, yields[0],
                           "O2: the yield is not protected by try/finally: an exception in the "
                           "with-block leaves the options changed"))
    # what the with-statement hands out is a detached copy of the ACTIVE options, never the snapshot object
    yielded = yields[0].value if isinstance(yields[0], ast.Yield) else None
    snapshot_vars = {t.id for n2 in ast.walk(func) if isinstance(n2, ast.Assign) and isinstance(n2.value, ast.Call)
                     and _is_copy_of(ctx, module, n2.value, TABLE) for t in n2.targets if isinstance(t, ast.Name)}
    if yielded is not None:
        hands_out_snapshot = isinstance(yielded, ast.Name) and yielded.id in snapshot_vars
        live = ctx.dotted(module, yielded) == TABLE
        result.ob("O4 global_options yields a detached copy of the active options", not (hands_out_snapshot or live),
                  module.loc(yields[0]), U(yielded))
        if hands_out_snapshot or live:
            result.add(Finding(
                "R-OPT", module, qual, yields[0],
                f"O4: global_options yields {'the snapshot it later restores from' if hands_out_snapshot else 'the live option table'} "
                f"('{U(yielded)}'): the 'as' target reports the options from before the block, and editing it changes what is "
                f"restored on exit" if hands_out_snapshot else
                f"O4: global_options yields the live option table: editing the 'as' target changes the options directly",
                construct="global_options: yielded object"))
    n = 0
    for path in paths:
        trace = describe_path(path)
        snapshot_expr = None  # provenance text of the snapshot
        snapshot_names: Set[str] = set()
        first_mut = None
        last_mut = None
        restores = []
        for idx, step in enumerate(path):
            # track snapshot bindings
            if step.kind == "stmt" and isinstance(step.node, ast.Assign):
                value = step.expand(step.node.value)
                if _is_copy_of(ctx, module, value, TABLE) and first_mut is None:
                    for target in step.node.targets:
                        if isinstance(target, ast.Name):
                            snapshot_names.add(target.id)
                            snapshot_expr = U(value)
            mut = None
            if step.kind == "stmt":
                for sub in ast.walk(step.node):
                    if sub in callbacks:
                        expanded_cb = step.expand(sub)
                        starstar = [kw.value for kw in expanded_cb.keywords if kw.arg is None]
                        if snapshot_expr is not None and len(starstar) == 1 and len(expanded_cb.keywords) == 1 \
                                and len(expanded_cb.args) == 1 and U(starstar[0]) == snapshot_expr:
                            restores.append(10 ** 9)  # runs when the stack unwinds, after everything in the block
            for call in _calls(ctx, module, step, SET):
                expanded = step.expand(call)
                starstar = [kw.value for kw in expanded.keywords if kw.arg is None]
                is_restore = (
                    snapshot_expr is not None
                    and len(starstar) == 1
                    and not expanded.args
                    and len(expanded.keywords) == 1
                    and U(starstar[0]) == snapshot_expr
                )
                # the snapshot must not have been modified in between
                if is_restore:
                    raw = [kw.value for kw in call.keywords if kw.arg is None][0]
                    if isinstance(raw, ast.Name) and step.muts.get(raw.id):
                        is_restore = False
                if is_restore:
                    restores.append(idx)
                else:
                    mut = U(call)
            direct = _mutation_of(ctx, module, step, {TABLE})
            if direct:
                # accepted low-level restore idioms: TABLE.update(snap) / clear()+update(snap)
                node = step.node
                low_restore = False
                if isinstance(node, ast.Expr) and isinstance(node.value, ast.Call):
                    call = node.value
                    if isinstance(call.func, ast.Attribute) and call.func.attr == "update" and len(call.args) == 1:
                        if snapshot_expr is not None and U(step.expand(call.args[0])) == snapshot_expr:
                            low_restore = True
                    if isinstance(call.func, ast.Attribute) and call.func.attr == "clear":
                        low_restore = None  # neutral: must be followed by update(snap)
                if low_restore is True:
                    restores.append(idx)
                elif low_restore is False:
                    mut = direct
            if mut is not None:
                if first_mut is None and func.args.kwarg is not None:
                    # O11: the entry applies exactly the caller's options - nothing is merged in
                    kname = "π" + func.args.kwarg.arg
                    for call in _calls(ctx, module, step, SET):
                        expanded = step.expand(call)
                        stars = [kw.value for kw in expanded.keywords if kw.arg is None]
                        named = [kw.arg for kw in expanded.keywords if kw.arg is not None]
                        texts = [U(e) for e in stars]
                        exact = (not named and not expanded.args and len(stars) == 1
                                 and texts[0] in (kname, f"dict({kname})", f"{kname}.copy()", "{**" + kname + "}"))
                        if exact:
                            result.ob("O11 global_options applies exactly the given options on entry", True,
                                      module.loc(step.orig), texts[0])
                        elif any(kname in t for t in texts):
                            result.ob("O11 global_options applies exactly the given options on entry", False,
                                      module.loc(step.orig), U(expanded)[:100])
                            result.add(Finding(
                                "R-OPT", module, qual, call,
                                f"O11: on entry global_options calls '{U(call)[:90]}', which sets more than the caller's options: every "
                                f"option that was merged in (e.g. the shipped defaults) overrides what is in force, so a nested block or "
                                f"a block opened after set_options() silently resets the options it does not name",
                                derivation=trace, construct="global_options: entry sets more than the given options"))
                        else:
                            raise AnalysisError(f"global_options: entry mutation not recognised: {U(call)[:80]}")
                if first_mut is None:
                    first_mut = idx
                    ok = snapshot_expr is not None
                    result.ob(f"O1 snapshot before first mutation [{len(trace)} decisions]", ok,
                              module.loc(step.orig), " / ".join(trace))
                    n += 1
                    if not ok:
                        result.add(Finding(
                            "R-OPT", module, qual, step.node,
                            "O1: options are changed before a full snapshot (get_options() / "
                            "_NUMPOLY_OPTIONS.copy()) was taken", derivation=trace))
                last_mut = idx
        if last_mut is not None:
            ok = any(r > last_mut for r in restores)
            result.ob(f"O2 restore from the snapshot after last mutation [{' / '.join(trace)}]", ok,
                      module.loc(path[last_mut].orig), "")
            n += 1
            if not ok:
                result.add(Finding(
                    "R-OPT", module, qual, path[-1].node if path[-1].kind != "end" else func,
                    "O2: on this exit the complete previous option set is not restored from "
                    "the snapshot (accepted: set_options(**snapshot), _NUMPOLY_OPTIONS.update(snapshot))",
                    derivation=trace,
                    construct=U(tries[0].finalbody[0]) if tries and tries[0].finalbody else f"def {qual}"))
    if n == 0:
        raise AnalysisError("global_options: no mutation found on any path (vacuous)")


def _o3(ctx, result, module):
    func = ctx.repo.function(OPT, "set_options")
    qual = "set_options"
    kwname = func.args.kwarg.arg if func.args.kwarg else None
    if kwname is None:
        raise AnalysisError("set_options no longer takes **kwargs")
    paths = ctx.paths(module, func)
    n_mut = 0
    for path in paths:
        trace = describe_path(path)
        validated = False
        open_loops = 0
        mutated_before_raise = None
        for idx, step in enumerate(path):
            if step.kind == "iter":
                it = step.expand(step.node.iter)
                if is_param(it, kwname) or (
                    isinstance(it, ast.Call) and isinstance(it.func, ast.Attribute)
                    and is_param(it.func.value, kwname)
                ):
                    if step.data == 0:
                        open_loops += 1
            elif step.kind == "loopexit":
                it = step.expand(step.node.iter) if isinstance(step.node, ast.For) else None
                if it is not None and (is_param(it, kwname) or (
                    isinstance(it, ast.Call) and isinstance(it.func, ast.Attribute)
                    and is_param(it.func.value, kwname))):
                    if step.data != "break":
                        if _loop_validates(ctx, module, step.node):
                            validated = True
                    open_loops = max(0, open_loops - 1) if step.data != 0 else open_loops
            elif step.kind == "assume":
                # set-difference idiom: a guard mentioning kwargs and the table, raising on the other edge
                text = U(step.expand(step.node))
                if ("π" + kwname) in text and ctx_table_in(ctx, module, step.expand(step.node)):
                    if not _in_loop(step.node, func):
                        validated = True
            mut = _mutation_of(ctx, module, step, {TABLE})
            if mut:
                n_mut += 1
                in_loop = _in_loop(step.node, func, over=kwname)
                ok = validated and not in_loop
                result.ob(f"O3 {mut} only after all keys are validated [{' / '.join(trace)}]", ok,
                          module.loc(step.orig), "")
                if not ok:
                    result.add(Finding(
                        "R-OPT", module, qual, step.node,
                        "O3: the option table is updated before every given key has been "
                        "validated (an unknown key later raises KeyError after a partial update)",
                        derivation=trace))
                mutated_before_raise = step
            if step.kind == "raise":
                exc = step.node.exc
                target = exc.func if isinstance(exc, ast.Call) else exc
                name = U(target) if target is not None else ""
                ok = name == "KeyError"
                result.ob(f"O3 unknown option raises KeyError (line {step.orig.lineno})", ok,
                          module.loc(step.orig), "")
                if not ok:
                    result.add(Finding("R-OPT", module, qual, step.node,
                                       f"O3: an unknown option raises {name or 'nothing'} instead of KeyError",
                                       derivation=trace))
                # polarity: the rejecting edge is the one on which the key is NOT in the table (the decision taken last)
                prev = [s2 for s2 in path[:idx] if s2.kind == "assume"]
                if prev:
                    test, pol = prev[-1].expand(prev[-1].node), bool(prev[-1].data)
                    while isinstance(test, ast.UnaryOp) and isinstance(test.op, ast.Not):
                        test, pol = test.operand, not pol
                    if isinstance(test, ast.Compare) and len(test.ops) == 1 and isinstance(test.ops[0], (ast.In, ast.NotIn)) \
                            and ("π" + kwname) in U(test.left) and ctx_table_in(ctx, module, test.comparators[0]):
                        member = pol if isinstance(test.ops[0], ast.In) else not pol
                        result.ob(f"O3 the rejecting edge is 'key not in table' (line {step.orig.lineno})", not member,
                                  module.loc(step.orig), U(prev[-1].node)[:60])
                        if member:
                            result.add(Finding(
                                "R-OPT", module, qual, step.node,
                                "O3: KeyError is raised on the edge where the key IS in the option table: known options are "
                                "rejected and unknown ones are accepted into the table", derivation=trace,
                                construct="set_options: inverted membership guard"))
    if n_mut == 0:
        raise AnalysisError("set_options: no mutation of the option table found (vacuous)")
    raises = [p for p in paths if p[-1].kind == "raise"]
    result.ob("O3 set_options has a rejecting path", bool(raises), module.loc(func), "")
    if not raises:
        result.add(Finding("R-OPT", module, qual, func,
                           "O3: no path rejects an unknown option name", construct="def set_options"))


def ctx_table_in(ctx, module, expr) -> bool:
    for sub in walk_shared(expr):
        if isinstance(sub, (ast.Name, ast.Attribute)) and ctx.dotted(module, sub) == TABLE:
            return True
    return False


def _in_loop(node, func, over: Optional[str] = None) -> bool:
    cur = getattr(node, "_orig", node)
    while cur is not None and cur is not func:
        cur = getattr(cur, "_parent", None)
        if isinstance(cur, (ast.For, ast.While)):
            if over is None:
                return True
            if isinstance(cur, ast.For) and over in U(cur.iter):
                return True
    return False


def _loop_validates(ctx, module, loop: ast.For) -> bool:
    """The loop body contains ``if key not in TABLE: raise KeyError`` (any polarity form)."""
    for sub in ast.walk(loop):
        if isinstance(sub, ast.If):
            test = sub.test
            mentions_table = any(
                isinstance(n, (ast.Name, ast.Attribute)) and ctx.dotted(module, n) == TABLE
                for n in ast.walk(test)
            )
            raises = any(isinstance(n, ast.Raise) for b in (sub.body, sub.orelse) for s in b for n in ast.walk(s))
            if mentions_table and raises:
                return True
            # guard-clause form:  if key in TABLE: continue  /  raise KeyError(...)
            skips = any(isinstance(n, ast.Continue) for s in sub.body for n in ast.walk(s))
            later_raise = any(isinstance(n, ast.Raise) for st in loop.body for n in ast.walk(st)
                              if getattr(st, "lineno", 0) > getattr(sub, "lineno", 0))
            if mentions_table and skips and later_raise and not sub.orelse:
                return True
    return False


def _o4(ctx, result, module):
    func = ctx.repo.function(OPT, "get_options")
    qual = "get_options"
    defaults_param = [a.arg for a in func.args.args][:1]
    for path in ctx.paths(module, func):
        last = path[-1]
        trace = describe_path(path)
        if last.kind != "return" or last.node.value is None:
            result.ob("O4 get_options returns a dict", False, module.loc(func), "")
            result.add(Finding("R-OPT", module, qual, last.node, "O4: get_options returns nothing",
                               derivation=trace))
            continue
        value = last.expand(last.node.value)
        want = TABLE
        if defaults_param:
            pol = last.fact("π" + defaults_param[0])
            if pol is True:
                want = DEFAULTS
        ok = _is_copy_of(ctx, module, value, want)
        result.ob(f"O4 return is a copy of {want.split('.')[-1]} [{' / '.join(trace)}]", ok,
                  module.loc(last.orig), U(value))
        if not ok:
            result.add(Finding(
                "R-OPT", module, qual, last.node,
                f"O4: returns {U(value)} which is not a detached copy of {want.split('.')[-1]} "
                f"(callers could mutate the live table / receive the wrong table)",
                derivation=trace))
    binding = ctx.res.lookup(DEFAULTS)
    if binding.kind != "assign" or not isinstance(binding.node.value, ast.Dict):
        raise AnalysisError("GLOBAL_OPTIONS_DEFAULTS is not a dict literal")
    for key, value in zip(binding.node.value.keys, binding.node.value.values):
        ok = isinstance(value, ast.Constant)
        result.ob(f"O4 default {U(key)} is an immutable literal", ok, module.loc(value), "")
        if not ok:
            result.add(Finding("R-OPT", module, "<module>", value,
                               f"O4: default of {U(key)} is mutable, a shallow copy shares it"))
    init = ctx.res.lookup(TABLE)
    ok = init.kind == "assign" and _is_copy_of(ctx, module, init.node.value, DEFAULTS) and not init.alts
    result.ob("O5 _NUMPOLY_OPTIONS initialised as a copy of the defaults", ok, module.loc(init.node), "")
    if not ok:
        result.add(Finding("R-OPT", module, "<module>", init.node,
                           "O5: _NUMPOLY_OPTIONS is not initialised as a detached copy of "
                           "GLOBAL_OPTIONS_DEFAULTS (set_options would change the shipped defaults)"))


def _o5(ctx, result):
    """Who may write / who may hold the tables."""
    n = 0
    for module, qual, func in list(ctx.repo.all_functions()) + [
        (m, "<module>", m.tree) for m in ctx.repo.modules.values()
    ]:
        body_nodes = ast.walk(func) if qual != "<module>" else _module_level_nodes(func)
        local_names = ctx.locals_of(func) if qual != "<module>" else set()
        for node in body_nodes:
            if not isinstance(node, (ast.Name, ast.Attribute)):
                continue
            if isinstance(getattr(node, "_parent", None), ast.Attribute) and node._parent.value is node and \
                    ctx.dotted(module, node._parent, local_names) in (TABLE, DEFAULTS):
                continue  # inner part of a longer chain that itself names the table
            name = ctx.dotted(module, node, local_names)
            if name not in (TABLE, DEFAULTS):
                continue
            n += 1
            parent = getattr(node, "_parent", None)
            where = module.loc(node)
            inside_set = module.name == OPT and qual == "set_options"
            verdict = _classify_use(node, parent)
            if verdict == "read":
                result.ob(f"O5 {where} {qual}: read-only use of {name.split('.')[-1]}", True, where, "")
                continue
            if verdict == "write" and inside_set and name == TABLE:
                result.ob(f"O5 {where} set_options writes the table", True, where, "")
                continue
            if verdict == "init" and module.name == OPT and qual == "<module>":
                continue
            if verdict == "assigned to another name" and qual != "<module>":
                # a local alias: fine if the alias itself is only read / copied afterwards
                stmt = parent
                while stmt is not None and not isinstance(stmt, (ast.Assign, ast.AnnAssign)):
                    stmt = getattr(stmt, "_parent", None)
                targets = stmt.targets if isinstance(stmt, ast.Assign) else ([stmt.target] if stmt is not None else [])
                alias_names = {t.id for t in targets if isinstance(t, ast.Name)}
                uses = [n for n in ast.walk(func) if isinstance(n, ast.Name) and n.id in alias_names and isinstance(n.ctx, ast.Load)]
                if alias_names and uses and all(_classify_use(u, getattr(u, "_parent", None)) == "read" for u in uses):
                    result.ob(f"O5 {where} {qual}: local alias of {name.split('.')[-1]} is only read", True, where, "")
                    continue
            result.ob(f"O5 {where} {qual}: {verdict} of {name.split('.')[-1]}", False, where, "")
            result.add(Finding(
                "R-OPT", module, qual, parent if parent is not None else node,
                f"O5: {name.split('.')[-1]} is "
                + ("written" if verdict == "write" else "handed out / aliased (" + verdict + ")")
                + f" outside set_options: only set_options may change the option table",
            ))
    if n < 4:
        raise AnalysisError("O5: fewer than 4 uses of the option tables found (vacuous)")


def _module_level_nodes(tree):
    todo = list(tree.body)
    while todo:
        node = todo.pop()
        if isinstance(node, (ast.FunctionDef, ast.AsyncFunctionDef, ast.ClassDef)):
            continue
        yield node
        todo.extend(ast.iter_child_nodes(node))


def _classify_use(node, parent) -> str:
    # conditional expressions / boolean operators are transparent: what matters is where their value goes
    while isinstance(parent, (ast.IfExp, ast.BoolOp)) and not (isinstance(parent, ast.IfExp) and parent.test is node):
        node, parent = parent, getattr(parent, "_parent", None)
    if isinstance(parent, ast.IfExp):
        return "read"  # used as a truth value only
    if not hasattr(node, "ctx"):
        if isinstance(parent, ast.Call) and node in parent.args:
            fname = U(parent.func)
            if fname in ("dict", "len", "set", "sorted", "list", "tuple", "frozenset", "copy.copy", "copy.deepcopy"):
                return "read"
            return f"argument of {fname}"
        if isinstance(parent, ast.Attribute) and parent.value is node:
            grand = getattr(parent, "_parent", None)
            if isinstance(grand, ast.Call) and grand.func is parent and parent.attr in ("copy", "get", "keys", "items", "values"):
                return "read"
            return "alias via ." + parent.attr
        if isinstance(parent, ast.Return):
            return "returned"
        if isinstance(parent, (ast.Assign, ast.AnnAssign)):
            return "assigned to another name"
        return "used in " + type(parent).__name__
    if isinstance(node.ctx, (ast.Store, ast.Del)):
        if isinstance(parent, (ast.Assign, ast.AnnAssign)) and isinstance(getattr(parent, "_parent", None), ast.Module):
            return "init"
        return "write"
    if isinstance(parent, ast.Global):
        return "write"
    if isinstance(parent, ast.Subscript) and parent.value is node:
        return "read" if isinstance(parent.ctx, ast.Load) else "write"
    if isinstance(parent, ast.Compare) and node in parent.comparators:
        return "read"
    if isinstance(parent, ast.Attribute) and parent.value is node:
        grand = getattr(parent, "_parent", None)
        if isinstance(grand, ast.Call) and grand.func is parent:
            if parent.attr in MUTATORS:
                return "write"
            if parent.attr in ("copy", "get", "keys", "items", "values", "__contains__"):
                return "read"
        return "alias via ." + parent.attr
    if isinstance(parent, ast.Call) and node in parent.args:
        fname = U(parent.func)
        if fname in ("dict", "len", "set", "sorted", "list", "tuple", "frozenset", "copy.copy", "copy.deepcopy"):
            return "read"
        return f"argument of {fname}"
    if isinstance(parent, ast.Dict):
        return "read"
    if isinstance(parent, ast.Return):
        return "returned"
    if isinstance(parent, (ast.Assign, ast.AnnAssign, ast.AugAssign)):
        return "assigned to another name"
    if isinstance(parent, (ast.For, ast.comprehension)):
        return "read"
    if isinstance(parent, ast.keyword) and parent.arg is None:
        return "read"
    return "used in " + type(parent).__name__


# ---------------------------------------------------------------------------
# O6 / O7 / O8

# option-key prefix -> modules whose code may read it (module granularity: a private helper extracted
# from an allowed function stays in its module)
_ORDERING = ("greater", "greater_equal", "less", "less_equal", "maximum", "minimum", "amax", "amin", "argmax", "argmin")
LAYERS = {
    "display_": {"numpoly.array_function.array_repr"},
    "sort_": {f"numpoly.array_function.{n}" for n in _ORDERING},
    "retain_": {"numpoly.construct.clean"},
    "default_varname": {"numpoly.baseclass", "numpoly.construct.variable", "numpoly.poly_function.set_dimensions",
                        "numpoly.align"},
    "varname_filter": {"numpoly.baseclass"},
    "force_number_suffix": set(),
}


def option_reads(ctx, module, func):
    """[(key, Subscript node)] for every read get_options()[K] through any local alias."""
    aliases: Set[str] = set()
    local_names = ctx.locals_of(func)
    for node in ast.walk(func):
        if isinstance(node, ast.Assign) and isinstance(node.value, ast.Call):
            if ctx.dotted(module, node.value.func, local_names - {"get_options"}) == GET:
                for target in node.targets:
                    if isinstance(target, ast.Name):
                        aliases.add(target.id)
    changed = True
    while changed:  # aliases of aliases (parameter bindings of inlined helpers, temporaries)
        changed = False
        for node in ast.walk(func):
            if isinstance(node, ast.Assign) and isinstance(node.value, ast.Name) and node.value.id in aliases:
                for target in node.targets:
                    if isinstance(target, ast.Name) and target.id not in aliases:
                        aliases.add(target.id)
                        changed = True
    def literal_key(expr):
        """The option name: a string literal, or a local bound exactly once to a string literal (parameter binding
        of an inlined helper)."""
        if isinstance(expr, ast.Constant):
            return expr.value
        if isinstance(expr, ast.Name):
            values = [n.value for n in ast.walk(func) if isinstance(n, ast.Assign) and len(n.targets) == 1
                      and isinstance(n.targets[0], ast.Name) and n.targets[0].id == expr.id]
            if len(values) == 1 and isinstance(values[0], ast.Constant) and isinstance(values[0].value, str):
                return values[0].value
            params = {a.arg for a in func.args.args + func.args.kwonlyargs}
            if expr.id in params and func.name.startswith("_"):
                return "<parameter of a private helper>"
        return None

    reads = []
    for node in ast.walk(func):
        if isinstance(node, ast.Subscript) and isinstance(node.ctx, ast.Load):
            base = node.value
            is_opt = (isinstance(base, ast.Name) and base.id in aliases) or (
                isinstance(base, ast.Call) and ctx.dotted(module, base.func, local_names - {"get_options"}) == GET
            )
            if is_opt:
                key = literal_key(node.slice)
                if key != "<parameter of a private helper>":
                    reads.append((key, node))
        if isinstance(node, ast.Call) and isinstance(node.func, ast.Attribute) and node.func.attr == "get":
            base = node.func.value
            is_opt = (isinstance(base, ast.Name) and base.id in aliases) or (
                isinstance(base, ast.Call) and ctx.dotted(module, base.func, local_names - {"get_options"}) == GET
            )
            if is_opt and node.args:
                key = literal_key(node.args[0])
                if key != "<parameter of a private helper>":
                    reads.append((key, node))
    return reads


def _layer_of(key: str):
    for prefix, allowed in LAYERS.items():
        if key.startswith(prefix):
            return prefix, allowed
    return None, None


def _o6(ctx, result):
    n = 0
    known_keys = set()
    binding = ctx.res.lookup(DEFAULTS)
    for key in binding.node.value.keys:
        if isinstance(key, ast.Constant):
            known_keys.add(key.value)
    for module, qual, func in ctx.repo.all_functions():
        if module.name == OPT:
            continue
        fq = f"{module.name}.{qual}"
        for key, node in option_reads(ctx, module, func):
            owner = node
            while owner is not None and not isinstance(owner, (ast.FunctionDef, ast.AsyncFunctionDef)):
                owner = getattr(owner, "_parent", None)
            if owner is not func:
                continue
            n += 1
            where = module.loc(node)
            if key is None:
                raise AnalysisError(f"{where}: option read with a non-literal key")
            if key not in known_keys:
                result.ob(f"O6 {where} reads known option", False, where, key)
                result.add(Finding("R-OPT", module, qual, node,
                                   f"O6: reads option '{key}' which is not in GLOBAL_OPTIONS_DEFAULTS (KeyError)"))
                continue
            prefix, allowed = _layer_of(key)
            ok = module.name in allowed
            result.ob(f"O6 {fq} may read '{key}'", ok, where, "")
            if not ok:
                result.add(Finding(
                    "R-OPT", module, qual, node,
                    f"O6: option '{key}' is read in {fq}; '{prefix}*' options may only be read by "
                    f"{sorted(a.split('.')[-1] for a in allowed) or 'nothing'} - here it can change "
                    f"the mathematical result"))
                continue
            if prefix == "retain_":
                # only as the default of a None parameter:  if P is None: P = get_options()[K]
                stmt = node
                while not isinstance(stmt, ast.stmt):
                    stmt = stmt._parent
                guard = getattr(stmt, "_parent", None)
                fparams = {a.arg for a in func.args.posonlyargs + func.args.args + func.args.kwonlyargs}

                def param_of(name, depth=0):
                    """The parameter a local name stands for (through single plain assignments), or None."""
                    if name in fparams:
                        return name
                    if depth > 4:
                        return None
                    values = [n2.value for n2 in ast.walk(func) if isinstance(n2, ast.Assign) and len(n2.targets) == 1
                              and isinstance(n2.targets[0], ast.Name) and n2.targets[0].id == name]
                    if len(values) == 1 and isinstance(values[0], ast.Name):
                        return param_of(values[0].id, depth + 1)
                    return None

                def none_test_of_param(test):
                    return isinstance(test, ast.Compare) and len(test.ops) == 1 and isinstance(test.ops[0], ast.Is) \
                        and isinstance(test.comparators[0], ast.Constant) and test.comparators[0].value is None \
                        and isinstance(test.left, ast.Name) and param_of(test.left.id) == key

                ok = (
                    isinstance(stmt, ast.Assign)
                    and stmt.value is node
                    and len(stmt.targets) == 1
                    and isinstance(stmt.targets[0], ast.Name)
                    and isinstance(guard, ast.If)
                    and stmt in guard.body
                    and none_test_of_param(guard.test)
                )
                if not ok and isinstance(stmt, ast.Assign) and isinstance(stmt.value, ast.IfExp) and stmt.value.body is node:
                    ok = none_test_of_param(stmt.value.test)  # T = options[K] if P is None else P
                result.ob(f"O6 '{key}' only replaces a None argument", ok, where, U(stmt))
                if not ok:
                    result.add(Finding(
                        "R-OPT", module, qual, stmt,
                        f"O6: global option '{key}' is used other than as the default of an "
                        f"omitted (None) argument; an explicit False/True from the caller can be overridden"))
    result.info["option_reads"] = n
    if n < 20:
        raise AnalysisError(f"O6: only {n} option reads found (vacuity guard, confirmed 33)")


GR_CALLEES = {
    "numpoly.utils.glexsort.glexsort", "numpoly.utils.glexindex.glexindex",
    "numpoly.poly_function.sortable_proxy.sortable_proxy",
    "numpoly.poly_function.lead_exponent.lead_exponent",
    "numpoly.poly_function.lead_coefficient.lead_coefficient",
    "numpoly.construct.monomial.monomial",
}


def _o7(ctx, result):
    n = 0
    for module, qual, func in ctx.repo.all_functions():
        fq = f"{module.name}.{qual}"
        reads = {id(node): key for key, node in option_reads(ctx, module, func)}
        # option aliases local variables:  graded = options["sort_graded"]
        var_keys: Dict[str, str] = {}
        for node in ast.walk(func):
            if isinstance(node, ast.Assign) and id(node.value) in reads and len(node.targets) == 1 and isinstance(node.targets[0], ast.Name):
                var_keys[node.targets[0].id] = reads[id(node.value)]
        params = {a.arg for a in func.args.args + func.args.kwonlyargs}
        local_names = ctx.locals_of(func)
        for node in ast.walk(func):
            if not isinstance(node, ast.Call):
                continue
            callee = ctx.dotted(module, node.func, local_names)
            if callee not in GR_CALLEES:
                continue
            target = ctx.function_node(callee)
            tparams = [a.arg for a in target[1].args.args] if target else []
            got = {}
            for kw in node.keywords:
                if kw.arg in ("graded", "reverse"):
                    got[kw.arg] = kw.value
            for idx, arg in enumerate(node.args):
                if idx < len(tparams) and tparams[idx] in ("graded", "reverse"):
                    got[tparams[idx]] = arg
            where = module.loc(node)
            keys = {}
            for pname, value in got.items():
                key = reads.get(id(value))
                if key is None and isinstance(value, ast.Name):
                    key = var_keys.get(value.id)
                keys[pname] = key
            from_options = any(k is not None for k in keys.values())
            from_params = {"graded", "reverse"} <= params
            if not from_options and not from_params:
                continue
            n += 1
            if from_options:
                family = "display_" if module.name == "numpoly.array_function.array_repr" else "sort_"
                problems = []
                for pname in ("graded", "reverse"):
                    key = keys.get(pname)
                    if pname not in got:
                        problems.append(f"{pname}= is not passed (callee default False is used "
                                        f"instead of the '{family}{pname}' option)")
                    elif key is None:
                        problems.append(f"{pname}= receives {U(got[pname])}, not an option value")
                    elif key != family + pname:
                        problems.append(f"{pname}= receives option '{key}', expected '{family}{pname}'")
                result.ob(f"O7 {fq}: {callee.split('.')[-1]}(graded, reverse) paired with {family}*", not problems,
                          where, "; ".join(problems))
                if problems:
                    result.add(Finding("R-OPT", module, qual, node, "O7: " + "; ".join(problems)))
            else:
                problems = []
                for pname in ("graded", "reverse"):
                    value = got.get(pname)
                    if value is None:
                        problems.append(f"own parameter '{pname}' is not forwarded to {callee.split('.')[-1]}")
                    elif not (isinstance(value, ast.Name) and value.id == pname):
                        if isinstance(value, ast.Name) and value.id in ("graded", "reverse"):
                            problems.append(f"{pname}= receives '{value.id}'")
                result.ob(f"O7 {fq}: forwards graded/reverse to {callee.split('.')[-1]}", not problems,
                          where, "; ".join(problems))
                if problems:
                    result.add(Finding("R-OPT", module, qual, node, "O7: " + "; ".join(problems)))
    result.info["graded_reverse_call_sites"] = n
    if n < 12:
        raise AnalysisError(f"O7: only {n} graded/reverse call sites found (vacuity guard)")


PRINT_KEYS = {"precision": "precision", "suppress_small": "suppress", "max_line_width": "linewidth",
              "linewidth": "linewidth", "threshold": "threshold", "edgeitems": "edgeitems"}


def _o7_printoptions(ctx, result):
    """A parameter that defaults to a numpy print option takes the option of its own meaning."""
    n = 0
    for module, qual, func in ctx.repo.analysed_functions():
        if module.is_pyx or "get_printoptions" not in ast.unparse(func):
            continue
        seen = set()
        for path in ctx.paths_auto(module, func):
            for step in path:
                if step.kind != "stmt" or not isinstance(step.node, ast.Assign) or len(step.node.targets) != 1:
                    continue
                target = step.node.targets[0]
                if not isinstance(target, ast.Name) or target.id not in PRINT_KEYS or id(step.node) in seen:
                    continue
                value = step.expand(step.node.value)
                keys = []
                todo = [value]
                while todo:
                    cur = todo.pop()
                    if isinstance(cur, ast.IfExp):
                        todo += [cur.body, cur.orelse]
                    elif isinstance(cur, ast.Subscript) and isinstance(cur.slice, ast.Constant) \
                            and isinstance(cur.value, ast.Call) and not is_S(cur.value) \
                            and ctx.dotted(module, cur.value.func) == "numpy.get_printoptions":
                        keys.append(cur.slice.value)
                    elif isinstance(cur, ast.Call) and isinstance(cur.func, ast.Attribute) and cur.func.attr == "get" \
                            and cur.args and isinstance(cur.args[0], ast.Constant) and isinstance(cur.func.value, ast.Call) \
                            and ctx.dotted(module, cur.func.value.func) == "numpy.get_printoptions":
                        keys.append(cur.args[0].value)
                if not keys:
                    continue
                seen.add(id(step.node))
                n += 1
                ok = all(k == PRINT_KEYS[target.id] for k in keys)
                value = ast.Subscript(value=ast.Name(id="printoptions", ctx=ast.Load()), slice=ast.Constant(
                    next((k for k in keys if k != PRINT_KEYS[target.id]), keys[0])), ctx=ast.Load())
                result.ob(f"O7 {module.name}.{qual}: '{target.id}' defaults to numpy print option "
                          f"'{PRINT_KEYS[target.id]}'", ok, module.loc(step.orig), repr(value.slice.value))
                if not ok:
                    result.add(Finding(
                        "R-OPT", module, qual, step.node,
                        f"O7: '{target.id}' is filled from numpy print option '{value.slice.value}', expected "
                        f"'{PRINT_KEYS[target.id]}': the text no longer follows numpy's print settings (e.g. small "
                        f"coefficients are suppressed although suppress=False)",
                        construct=f"{target.id} <- printoptions[{value.slice.value!r}]"))
    result.info["printoption_defaults"] = n
    if n < 1:
        raise AnalysisError("O7: no print-option default found (confirmed 2 in to_string)")


PINNED = {
    "numpoly.align.align_indeterminants": {"retain_coefficients": True, "retain_names": True},
    "numpoly.align.align_exponents": {"retain_coefficients": True, "retain_names": True},
    "numpoly.poly_function.decompose.decompose": {"retain_coefficients": True, "retain_names": True},
    "numpoly.poly_function.set_dimensions.set_dimensions": {"retain_names": True},
}
CONSTRUCTORS = {
    "numpoly.construct.from_attributes.polynomial_from_attributes",
    "numpoly.baseclass.ndpoly.from_attributes",
}


def _o8(ctx, result):
    for fq, pins in PINNED.items():
        found = ctx.function_node(fq)
        if found is None:
            raise AnalysisError(f"anchor function {fq} is missing")
        module, func = found
        local_names = ctx.locals_of(func)
        sites = 0
        for node in ast.walk(func):
            if not isinstance(node, ast.Call):
                continue
            callee = ctx.dotted(module, node.func, local_names)
            is_ctor = callee in CONSTRUCTORS or (
                callee is None and isinstance(node.func, ast.Attribute) and node.func.attr == "from_attributes"
            )
            if not is_ctor:
                continue
            sites += 1
            problems = []
            for name, want in pins.items():
                value = kwarg(node, name)
                if value is None:
                    problems.append(f"{name}= is not passed (inherits the global option)")
                elif not (isinstance(value, ast.Constant) and value.value is want):
                    problems.append(f"{name}={U(value)} is not the literal {want}")
            result.ob(f"O8 {fq.split('.')[-1]}: construction pins {sorted(pins)}", not problems,
                      module.loc(node), "; ".join(problems))
            if problems:
                result.add(Finding(
                    "R-OPT", module, func.name, node,
                    "O8: layout-critical construction does not pin the retain flags: "
                    + "; ".join(problems)
                    + " - under a non-default global option the aligned operands lose their common layout"))
        if sites == 0:
            raise AnalysisError(f"O8: no construction call found in {fq}")


GLOBAL = f"{OPT}.global_options"


def _o9_o10(ctx, result):
    """O9: a library function outside numpoly/option.py that calls set_options itself restores, on every exit
    it reaches, each option it changed from a snapshot taken before the change (the disciplined way is
    ``with global_options(...)``).  O10: no generator suspends (yield) inside ``with global_options(...)``:
    the block would stay open while the caller runs and its restore is no longer nested."""
    sites = 0
    for module, qual, func in ctx.repo.analysed_functions():
        if module.name == OPT or module.is_pyx:
            continue
        text = ast.unparse(func)
        if "global_options" in text:
            for node in ast.walk(func):
                if isinstance(node, (ast.With, ast.AsyncWith)) and any(
                        isinstance(item.context_expr, ast.Call) and ctx.dotted(module, item.context_expr.func) == GLOBAL
                        for item in node.items):
                    sites += 1
                    inner = [n for st in node.body for n in ast.walk(st) if isinstance(n, (ast.Yield, ast.YieldFrom))
                             and _owner(n, func) is func]
                    result.ob(f"O10 {module.name}.{qual}: no yield inside 'with global_options'", not inner,
                              module.loc(node), "")
                    if inner:
                        result.add(Finding(
                            "R-OPT", module, qual, inner[0],
                            "O10: the generator yields inside 'with global_options(...)': the block stays open while the "
                            "caller runs, so the caller sees the changed options, and the restore happens whenever the "
                            "generator is resumed or dropped - it can overwrite options set in between or leak the ones "
                            "that were current when the iteration started", construct="yield inside with global_options"))
        if "set_options" not in text:
            continue
        for path in ctx.paths_auto(module, func):
            snaps = {}  # local name -> provenance text of a full snapshot
            keysave = {}  # local name -> option key whose value it saved
            changed = {}  # option key (or '*') -> step
            bad = None
            for step in path:
                if step.kind == "stmt" and isinstance(step.node, ast.Assign) and not changed:
                    value = step.expand(step.node.value)
                    if _is_copy_of(ctx, module, value, TABLE):
                        for target in step.node.targets:
                            if isinstance(target, ast.Name):
                                snaps[target.id] = U(value)
                    # a single saved key:  old = get_options()["key"]
                    if isinstance(value, ast.Subscript) and isinstance(value.slice, ast.Constant) \
                            and _is_copy_of(ctx, module, value.value, TABLE):
                        for target in step.node.targets:
                            if isinstance(target, ast.Name):
                                keysave[target.id] = value.slice.value
                for call in _calls(ctx, module, step, SET):
                    sites += 1
                    for kw in call.keywords:
                        if kw.arg is None:
                            if isinstance(kw.value, ast.Name) and kw.value.id in snaps and not step.muts.get(kw.value.id):
                                changed.clear()
                            else:
                                changed["*"] = step
                            continue
                        value = kw.value
                        if isinstance(value, ast.Subscript) and isinstance(value.value, ast.Name) and value.value.id in snaps \
                                and isinstance(value.slice, ast.Constant):
                            if value.slice.value == kw.arg:
                                changed.pop(kw.arg, None)
                            else:
                                bad = (step, call, f"option '{kw.arg}' is restored from the saved value of "
                                                   f"'{value.slice.value}'")
                        elif isinstance(value, ast.Name) and value.id in keysave and not step.muts.get(value.id):
                            if keysave[value.id] == kw.arg:
                                changed.pop(kw.arg, None)
                            else:
                                bad = (step, call, f"option '{kw.arg}' is restored from the saved value of "
                                                   f"'{keysave[value.id]}'")
                        else:
                            if not snaps and kw.arg not in keysave.values():
                                bad = bad or (step, call, f"option '{kw.arg}' is changed before its previous value (or a "
                                                          f"snapshot of the options, get_options()) was saved")
                            changed[kw.arg] = step
            last = path[-1]
            if bad is None and changed and last.kind in ("return", "end", "raise"):
                key, step = next(iter(changed.items()))
                bad = (step, step.node, f"this exit ({last.kind} at line {getattr(last.orig, 'lineno', '?')}) is reached with "
                                        f"option {key!r} still changed: it is not restored from the snapshot")
            if any(_calls(ctx, module, st, SET) for st in path):
                result.ob(f"O9 {module.name}.{qual}: options changed by set_options are restored on this exit "
                          f"[{' / '.join(describe_path(path))}]"[:220], bad is None, module.loc(last.orig), "")
            if bad is not None:
                step, node, why = bad
                result.add(Finding(
                    "R-OPT", module, qual, node,
                    f"O9: {qual} changes the global options with set_options and {why}; callers (and an enclosing "
                    f"'with global_options' block) silently continue under different options",
                    derivation=describe_path(path), construct=f"set_options in {qual}"))
        # exception safety: what set_options changed is restored in a 'finally'
        for node in ast.walk(func):
            block = None
            for field in ("body", "orelse", "finalbody"):
                stmts = getattr(node, field, None)
                if isinstance(stmts, list) and stmts and isinstance(stmts[0], ast.stmt):
                    for idx, stmt in enumerate(stmts):
                        calls = [c for c in ast.walk(stmt) if isinstance(c, ast.Call) and ctx.dotted(module, c.func) == SET] \
                            if isinstance(stmt, ast.Expr) else []
                        if not calls:
                            continue
                        call = calls[0]
                        is_restore = any(kw.arg is None for kw in call.keywords) or all(
                            isinstance(kw.value, (ast.Subscript, ast.Name)) for kw in call.keywords)
                        in_finally = field == "finalbody"
                        if is_restore or in_finally:
                            continue
                        rest = stmts[idx + 1:]
                        protected = bool(rest) and isinstance(rest[0], ast.Try) and any(
                            isinstance(c, ast.Call) and ctx.dotted(module, c.func) == SET
                            for st in rest[0].finalbody for c in ast.walk(st))
                        later_restore = any(isinstance(c, ast.Call) and ctx.dotted(module, c.func) == SET
                                            for st in rest for c in ast.walk(st))
                        if later_restore:
                            result.ob(f"O9 {module.name}.{qual}: the restore after set_options sits in a 'finally'", protected,
                                      module.loc(stmt), "")
                            if not protected:
                                result.add(Finding(
                                    "R-OPT", module, qual, stmt,
                                    f"O9: {qual} changes the global options with set_options and restores them further down, "
                                    f"but not in the 'finally' of a try that starts right after the change: any exception in "
                                    f"between (a failing callback, a bad argument) leaves the options changed for the caller",
                                    construct=f"set_options in {qual}: restore not in finally"))
    result.info["O9_O10_sites"] = sites


def _owner(node, func):
    cur = node
    while cur is not None and cur is not func:
        cur = getattr(cur, "_parent", None)
        if isinstance(cur, (ast.FunctionDef, ast.AsyncFunctionDef, ast.Lambda)):
            return cur
    return func


def _discover_tables(ctx) -> None:
    """The option tables are found by role, not by name: DEFAULTS is the module-level dict literal of numpoly/option.py
    that lists the options, TABLE the module-level name that set_options writes to."""
    global TABLE, DEFAULTS
    module = ctx.repo.module(OPT)
    defaults = None
    for node in module.tree.body:
        target = value = None
        if isinstance(node, ast.Assign) and len(node.targets) == 1 and isinstance(node.targets[0], ast.Name):
            target, value = node.targets[0].id, node.value
        elif isinstance(node, ast.AnnAssign) and isinstance(node.target, ast.Name) and node.value is not None:
            target, value = node.target.id, node.value
        if isinstance(value, ast.Dict) and any(isinstance(k, ast.Constant) and k.value == "retain_names" for k in value.keys):
            defaults = target
    func = ctx.repo.function(OPT, "set_options")
    module_names = {t.id for node in module.tree.body if isinstance(node, (ast.Assign, ast.AnnAssign))
                    for t in (node.targets if isinstance(node, ast.Assign) else [node.target]) if isinstance(t, ast.Name)}
    written = None
    for node in ast.walk(func):
        root = None
        if isinstance(node, ast.Call) and isinstance(node.func, ast.Attribute) and node.func.attr in ("update", "__setitem__", "setdefault"):
            root = node.func.value
        elif isinstance(node, (ast.Assign, ast.AugAssign)):
            for tgt in (node.targets if isinstance(node, ast.Assign) else [node.target]):
                if isinstance(tgt, ast.Subscript):
                    root = tgt.value
        # follow plain local aliases (parameter bindings of inlined helpers)
        for _ in range(4):
            if isinstance(root, ast.Name) and root.id not in module_names:
                values = [n.value for n in ast.walk(func) if isinstance(n, ast.Assign) and len(n.targets) == 1
                          and isinstance(n.targets[0], ast.Name) and n.targets[0].id == root.id]
                root = values[0] if len(values) == 1 else None
        if isinstance(root, ast.Name) and root.id in module_names and root.id != defaults:
            written = root.id
    if defaults is None:
        raise AnalysisError("numpoly/option.py: the dict literal of option defaults was not found")
    DEFAULTS = f"{OPT}.{defaults}"
    if written is not None:
        TABLE = f"{OPT}.{written}"


def run_table(ctx) -> RuleResult:
    _discover_tables(ctx)
    result = RuleResult("R-OPT-TABLE", "O1-O5: snapshot before set, restore in finally from the "
                        "snapshot, validate all then mutate, detached copies, only set_options writes; "
                        "O9: library code that calls set_options restores what it changed on every exit; "
                        "O10: no yield inside 'with global_options'")
    module = ctx.repo.module(OPT)
    _o1_o2(ctx, result, module)
    _o3(ctx, result, module)
    _o4(ctx, result, module)
    _o5(ctx, result)
    _o9_o10(ctx, result)
    result.floor = 20
    return result


def run_layers(ctx) -> RuleResult:
    _discover_tables(ctx)
    result = RuleResult("R-OPT-LAYERS", "O6: each option key is read only by the layer it is "
                        "documented to influence; retain_* only as default of a None argument")
    _o6(ctx, result)
    _o12(ctx, result)
    result.floor = 20
    return result


def _o12(ctx, result) -> None:
    """O12: an option-defaulted flag (parameter ``retain_*`` with default None) is resolved before it is used: on every
    path, wherever the flag decides a branch its value is no longer the bare parameter that may still be None (None is
    falsy, so an unresolved flag silently means 'False' whatever the option says - e.g. for the one caller that passes
    the other flag explicitly)."""
    n = 0
    for module, qual, func in ctx.repo.analysed_functions():
        if module.is_pyx:
            continue
        args = func.args
        pos = args.posonlyargs + args.args
        defaults = dict(zip([p.arg for p in pos][len(pos) - len(args.defaults):], args.defaults))
        defaults.update({k.arg: d for k, d in zip(args.kwonlyargs, args.kw_defaults) if d is not None})
        flags = [name for name, d in defaults.items() if name.startswith("retain_")
                 and isinstance(d, ast.Constant) and d.value is None]
        if not flags or "get_options" not in U(func):
            continue
        seen = set()
        for path in ctx.paths_auto(module, func):
            for step in path:
                if step.kind != "assume":
                    continue
                test = step.node
                while isinstance(test, ast.UnaryOp) and isinstance(test.op, ast.Not):
                    test = test.operand
                conjuncts = test.values if isinstance(test, ast.BoolOp) else [test]
                for conj in conjuncts:
                    while isinstance(conj, ast.UnaryOp) and isinstance(conj.op, ast.Not):
                        conj = conj.operand
                    if not isinstance(conj, ast.Name):
                        continue
                    value = step.expand(conj)
                    for flag in flags:
                        if not (isinstance(value, ast.Name) and value.id == "π" + flag):
                            continue
                        known = step.fact(f"π{flag} is None")
                        key = (id(step.node), flag, known)
                        if key in seen:
                            continue
                        seen.add(key)
                        n += 1
                        ok = known is False
                        result.ob(f"O12 {module.name}.{qual}: '{flag}' is resolved (not None) where it decides a branch", ok,
                                  module.loc(step.orig), " / ".join(describe_path(path))[-100:])
                        if not ok:
                            result.add(Finding(
                                "R-OPT", module, qual, step.node,
                                f"O12: '{flag}' decides '{U(step.node)[:60]}' on a path where it may still be None (its default): "
                                f"None is falsy, so the flag means False whatever the option '{flag}' says - the default is "
                                f"resolved from the options only on other paths (e.g. only when another flag is None too)",
                                derivation=describe_path(path), construct=f"{qual}: {flag} used unresolved"))
    result.info["O12_flag_tests"] = n


def run_pairing(ctx) -> RuleResult:
    _discover_tables(ctx)
    result = RuleResult("R-OPT-PAIRING", "O7: graded=/reverse= receive the *_graded/*_reverse key "
                        "of the right family, or the function's own graded/reverse parameters")
    _o7(ctx, result)
    _o7_printoptions(ctx, result)
    result.floor = 12
    return result


def run_pinned(ctx) -> RuleResult:
    _discover_tables(ctx)
    result = RuleResult("R-OPT-PINNED", "O8: layout-critical constructions pass literal retain flags")
    _o8(ctx, result)
    result.floor = 4
    return result
