"""R-PYX - the C layer (cvalues.pyx, cmultiply.pyx, cfrom_attributes.pyx) and the
generic discarded-exception rule.  The .pyx sources cannot be rebuilt here, so
reading them is the only way to see an edit at all."""
from __future__ import annotations

import ast
import re
from typing import Dict, List, Optional

from .. import AnalysisError
from ..paths import U, describe_path
from ..report import Finding, RuleResult
from .common import calls_in

# the 13 numeric dtypes property C12 names
ALL_DTYPES = ["bool_", "int8", "int16", "int32", "int64", "uint8", "uint16", "uint32", "uint64",
              "float16", "float32", "float64", "complex64", "complex128"]
DTYPE_ALIASES = {"bool": "bool_", "float_": "float64", "double": "float64", "complex_": "complex128",
                 "intp": "int64", "int_": "int64", "uint": "uint64", "single": "float32",
                 "csingle": "complex64", "cdouble": "complex128", "half": "float16"}
# C element type <-> numpy dtype it can legally view
CTYPE_OF = {"bool_": "uint8_t", "uint8": "uint8_t", "int8": "int8_t", "int16": "int16_t", "uint16": "uint16_t",
            "int32": "int32_t", "uint32": "uint32_t", "int64": "int64_t", "uint64": "uint64_t",
            "float32": "float", "float64": "double", "complex64": "float complex", "complex128": "complex"}
EXC_NAMES = {"ValueError", "TypeError", "KeyError", "IndexError", "RuntimeError", "NotImplementedError",
             "Exception", "AssertionError", "OverflowError", "ArithmeticError", "AttributeError",
             "FeatureNotSupported", "PolynomialConstructionError", "LookupError", "OSError"}
WIDTH = {"char": 8, "uint8_t": 8, "int8_t": 8, "short": 16, "int16_t": 16, "uint16_t": 16, "int": 32,
         "int32_t": 32, "uint32_t": 32, "np.uint32_t": 32, "np.int32_t": 32, "long": 64, "int64_t": 64,
         "uint64_t": 64, "Py_ssize_t": 64, "np.int64_t": 64, "np.uint64_t": 64, "size_t": 64,
         "Py_UCS4": 32}


def run_discarded(ctx) -> RuleResult:
    """An expression statement that only constructs an exception is a missing ``raise``."""
    result = RuleResult("R-PYX-DISCARD", "no exception object is constructed and thrown away "
                        "(expression statement whose value is an exception constructor)")
    n = 0
    for module, qual, func in ctx.repo.all_functions():
        for node in ast.walk(func):
            if isinstance(node, ast.Expr) and isinstance(node.value, ast.Call):
                target = node.value.func
                name = target.attr if isinstance(target, ast.Attribute) else getattr(target, "id", None)
                if name is None:
                    continue
                n += 1
                is_exc = name in EXC_NAMES or name.endswith("Error") or name.endswith("Exception")
                if is_exc:
                    result.ob(f"{module.loc(node)} {qual}: {U(node)[:60]}", False, module.loc(node), "")
                    result.add(Finding(
                        "R-PYX-DISCARD", module, qual, node,
                        f"{name}(...) is constructed but not raised: the failure it reports is "
                        f"silently ignored"))
    # positive example
    probe = ast.parse("def f():\n    ValueError('x')\n")
    stmt = probe.body[0].body[0]
    if not (isinstance(stmt, ast.Expr) and stmt.value.func.id in EXC_NAMES):
        raise AnalysisError("R-PYX-DISCARD self-check failed")
    result.info["expression_statement_calls"] = n
    result.ob("expression-statement calls examined", True, "", str(n))
    result.floor = 1
    return result


def _dtype_arms(func: ast.FunctionDef):
    """[(dtype name, body, If node)] of an if/elif chain on ``coeffs.dtype == np.X``; plus else body."""
    arms = []
    default = None
    chain = [s for s in func.body if isinstance(s, ast.If)]
    if not chain:
        return arms, None, None
    node = chain[0]
    first = node
    while True:
        test = node.test
        dtype = None
        if isinstance(test, ast.Compare) and len(test.ops) == 1 and isinstance(test.ops[0], ast.Eq):
            sides = [test.left, test.comparators[0]]
            for side in sides:
                if isinstance(side, ast.Attribute) and isinstance(side.value, ast.Name) and side.value.id in ("np", "numpy"):
                    dtype = side.attr
                elif isinstance(side, ast.Constant) and isinstance(side.value, str):
                    dtype = side.value
        if dtype is None:
            raise AnalysisError(f"unrecognised dtype test {U(test)}")
        arms.append((DTYPE_ALIASES.get(dtype, dtype), node.body, node))
        if len(node.orelse) == 1 and isinstance(node.orelse[0], ast.If):
            node = node.orelse[0]
            continue
        default = node.orelse
        break
    return arms, default, first


def run_dtypes(ctx) -> RuleResult:
    result = RuleResult(
        "R-PYX-DTYPE",
        "cset_values/cadd_values: every numeric dtype has a handler or the default arm raises; each "
        "handler's memoryview element type and pointer type agree with the dtype of its arm; "
        "set/add siblings agree",
    )
    module = ctx.repo.module("numpoly.cfunctions.cvalues")
    summaries = {}
    for fname in ("cset_values", "cadd_values"):
        func = ctx.repo.function(module.name, fname)
        arms, default, first = _dtype_arms(func)
        if not arms:
            raise AnalysisError(f"{fname}: no dtype switch found")
        handled = {dtype for dtype, _, _ in arms}
        default_raises = bool(default) and any(isinstance(s, ast.Raise) for s in default)
        missing = [d for d in ALL_DTYPES if d not in handled]
        ok = not missing or default_raises
        result.ob(f"{fname}: all numeric dtypes handled or default raises", ok, module.loc(func),
                  f"handled={sorted(handled)} default_raises={default_raises}")
        if not ok:
            result.add(Finding(
                "R-PYX-DTYPE", module, fname, first,
                f"{fname} has no arm for dtypes {missing} and its default arm does not raise: such "
                f"coefficients are silently not written (the destination keeps uninitialised memory)",
                construct=f"{fname}: dtype switch without raising default"))
        summaries[fname] = {}
        for dtype, body, node in arms:
            calls = [c for s in body for c in calls_in(s)]
            if len(calls) != 1 or not isinstance(calls[0].func, ast.Name):
                raise AnalysisError(f"{fname}: arm {dtype} is not a single helper call")
            helper = calls[0].func.id
            summaries[fname][dtype] = helper
            types = module.ctypes.get(helper)
            if types is None:
                raise AnalysisError(f"{fname}: helper {helper} not found")
            param0 = types["__params__"].split()[0]
            elem = re.sub(r"\s*\[.*\]$", "", types[param0]).strip()
            ptr = None
            for var, ctype in types.items():
                if var == "value_ptr" or (ctype.endswith("*") and not ctype.startswith("char")):
                    ptr = ctype.rstrip("*").strip()
            want = CTYPE_OF.get(dtype)
            ok = want is not None and elem == want and ptr == want
            result.ob(f"{fname}[{dtype}] -> {helper}: element {elem}, pointer {ptr}", ok,
                      module.loc(node), f"expected {want}")
            if not ok:
                result.add(Finding(
                    "R-PYX-DTYPE", module, fname, node.test,
                    f"arm for {dtype} calls {helper} whose memoryview element type is '{elem}' and "
                    f"pointer type '{ptr}', expected '{want}': bytes are reinterpreted",
                    construct=f"{fname}[{dtype}] -> {helper}"))
            # the helper stores with = (set) or += (add) through the typed pointer
            hfunc = ctx.repo.function(module.name, helper)
            stores = [n for n in ast.walk(hfunc) if isinstance(n, (ast.Assign, ast.AugAssign))
                      and isinstance((n.targets[0] if isinstance(n, ast.Assign) else n.target), ast.Subscript)]
            want_aug = fname == "cadd_values"
            ok = len(stores) == 1 and isinstance(stores[0], ast.AugAssign) == want_aug and (
                not want_aug or isinstance(stores[0].op, ast.Add))
            result.ob(f"{helper}: {'accumulates (+=)' if want_aug else 'stores (=)'} once per element", ok,
                      module.loc(hfunc), "")
            if not ok:
                result.add(Finding("R-PYX-DTYPE", module, helper, stores[0] if stores else hfunc,
                                   f"{helper} must {'accumulate with +=' if want_aug else 'store with ='} "
                                   f"exactly once per element"))
            # effects: only writes through the pointer derived from PyArray_DATA(out); coeffs read-only
            for n in ast.walk(hfunc):
                target = None
                if isinstance(n, ast.Assign):
                    target = n.targets[0]
                elif isinstance(n, ast.AugAssign):
                    target = n.target
                if isinstance(target, ast.Subscript):
                    root = target.value
                    ok = isinstance(root, ast.Name) and root.id != param0
                    if not ok:
                        result.ob(f"{helper}: coefficient input is read-only", False, module.loc(n), "")
                        result.add(Finding("R-PYX-DTYPE", module, helper, n,
                                           f"{helper} writes into its input '{param0}'"))
    set_arms, add_arms = summaries["cset_values"], summaries["cadd_values"]
    ok = set(set_arms) == set(add_arms)
    result.ob("cset_values and cadd_values handle the same dtypes", ok, module.relpath,
              f"{sorted(set_arms)} vs {sorted(add_arms)}")
    if not ok:
        result.add(Finding("R-PYX-DTYPE", module, "cadd_values", None,
                           f"dtype arms differ: set {sorted(set_arms)} vs add {sorted(add_arms)}",
                           construct="cset_values/cadd_values arms"))
    # sibling cross-check: the ten helpers are one template modulo element type and = / +=
    shapes = {}
    for fname, arms in summaries.items():
        for dtype, helper in arms.items():
            hfunc = ctx.repo.function(module.name, helper)
            parts = []
            for stmt in ast.walk(hfunc):
                if isinstance(stmt, ast.AugAssign):
                    parts.append("STORE " + ast.dump(stmt.target) + " <- " + ast.dump(stmt.value))
                elif isinstance(stmt, ast.Assign):
                    parts.append("STORE " + ast.dump(stmt.targets[0]) + " <- " + ast.dump(stmt.value))
                elif isinstance(stmt, (ast.For, ast.While)):
                    parts.append("LOOP " + ast.dump(stmt.iter if isinstance(stmt, ast.For) else stmt.test))
            shapes[helper] = "\n".join(parts)
    groups: Dict[str, List[str]] = {}
    for helper, dump in shapes.items():
        groups.setdefault(dump, []).append(helper)
    ok = len(groups) == 1
    result.ob("the typed helpers are instances of one template", ok, module.relpath,
              f"{len(groups)} distinct bodies")
    if not ok:
        majority = max(groups.values(), key=len)
        for dump, helpers in groups.items():
            if helpers is majority:
                continue
            for helper in helpers:
                hfunc = ctx.repo.function(module.name, helper)
                result.add(Finding("R-PYX-DTYPE", module, helper, hfunc,
                                   f"{helper} deviates from the body shared by {len(majority)} sibling helpers "
                                   f"(stride / offset / index expression differs)", construct=f"def {helper}"))
    result.floor = 20
    return result


def run_multiply(ctx) -> RuleResult:
    result = RuleResult(
        "R-PYX-MUL",
        "cmultiply: set on first sight of a key, accumulate only when the key was seen, record the "
        "key on the set path; the key encoder does not narrow the code point",
    )
    module = ctx.repo.module("numpoly.cfunctions.cmultiply")
    func = ctx.repo.function(module.name, "cmultiply_cdef")
    types = module.ctypes.get("cmultiply_cdef", {})
    paths = ctx.paths(module, func, max_iter=1)
    n = 0
    for path in paths:
        trace = describe_path(path)
        for idx, step in enumerate(path):
            if step.kind != "stmt":
                continue
            for call in calls_in(step.node):
                name = ctx.dotted(module, call.func)
                if name not in ("numpoly.cfunctions.cvalues.cset_values", "numpoly.cfunctions.cvalues.cadd_values"):
                    continue
                n += 1
                key = step.expand(call.args[1]) if len(call.args) > 1 else None
                seen_fact = None
                for node, polarity in step.fact_items():
                    if isinstance(node, ast.Compare) and isinstance(node.ops[0], ast.In) and key is not None \
                            and U(node.left) == U(key):
                        seen_fact = polarity
                is_add = name.endswith("cadd_values")
                ok = seen_fact is is_add
                result.ob(f"cmultiply: {'accumulate' if is_add else 'set'} iff key "
                          f"{'already' if is_add else 'not yet'} seen [{' / '.join(trace)}]", ok,
                          module.loc(step.orig), "")
                if not ok:
                    result.add(Finding(
                        "R-PYX-MUL", module, "cmultiply_cdef", call,
                        ("accumulates into a key that was never set (raw memory is added to)" if is_add
                         else "overwrites a key that already holds a partial sum")
                        if seen_fact is not None else
                        "set/accumulate is not decided by membership of the key in the seen-set",
                        derivation=trace))
                if not is_add:
                    # the key must be recorded afterwards on this path (same iteration)
                    recorded = False
                    for later in path[idx:]:
                        if later.kind == "iter":
                            break
                        if later.kind == "stmt":
                            for c2 in calls_in(later.node):
                                if isinstance(c2.func, ast.Attribute) and c2.func.attr == "add" and c2.args \
                                        and U(later.expand(c2.args[0])) == U(key):
                                    recorded = True
                    result.ob("cmultiply: key recorded as seen after the first store", recorded,
                              module.loc(step.orig), "")
                    if not recorded:
                        result.add(Finding("R-PYX-MUL", module, "cmultiply_cdef", call,
                                           "the key is not added to the seen-set after its first store: the "
                                           "next product with the same exponent overwrites instead of adding",
                                           derivation=trace))
    if n == 0:
        raise AnalysisError("cmultiply_cdef: no cset_values/cadd_values call found")
    # narrowing in the key encoder
    found_encoder = False
    for call in calls_in(func):
        if isinstance(call.func, ast.Name) and call.func.id in ("sprintf", "snprintf"):
            found_encoder = True
            fmt = next((a for a in call.args if isinstance(a, ast.Constant) and isinstance(a.value, str)), None)
            operand = call.args[-1]
            width_conv = 8 if fmt is not None and "%c" in fmt.value else None
            op_types = []
            index_names = {
                id(n3) for sub in ast.walk(operand) if isinstance(sub, ast.Subscript)
                for n3 in ast.walk(sub.slice)
            }
            for n2 in ast.walk(operand):
                if isinstance(n2, ast.Name) and n2.id in types and id(n2) not in index_names:
                    ctype = types[n2.id]
                    inner = re.search(r"\[\s*([\w\.]+)", ctype)
                    op_types.append(inner.group(1) if inner else ctype)
            op_width = max([WIDTH.get(t, 0) for t in op_types] or [0])
            ok = width_conv is None or op_width <= width_conv
            result.ob(f"key encoder {U(call)[:70]} keeps the code point width", ok, module.loc(call),
                      f"conversion {width_conv} bits, operand {op_width} bits ({op_types})")
            if not ok:
                result.add(Finding(
                    "R-PYX-MUL", module, "cmultiply_cdef", call,
                    f"'%c' writes one byte but the operand is {op_width} bits wide: code points >= 128 "
                    f"are not valid UTF-8 single bytes and >= 256 alias another key (exponent sums "
                    f">= {128 - 59} fail, >= {256 - 59} are confused)",
                    construct="sprintf('%c', exponent sum + offset)"))
    if not found_encoder:
        result.ob("cmultiply: no byte-wise key encoder", True, module.relpath, "")
    result.floor = 3
    return result
