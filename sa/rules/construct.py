"""R-NAMES, R-GETITEM, R-DTYPE, R-PAIR, R-COLIDX - constructor call sites:
names / dtype / exponent-coefficient pairing / column-index provenance."""
from __future__ import annotations

import ast
from typing import List, Optional, Set

from .. import AnalysisError
from ..ctx import ALIGN_FUNCS
from ..paths import PARAM, U, describe_path, is_S, strip_tags, walk_shared
from ..report import Finding, RuleResult
from .common import calls_in, expand_in_context, is_param, kwarg, step_exprs

CONSTRUCTORS = {
    "numpoly.construct.polynomial.polynomial": ("poly_like", "names", "dtype"),
    "numpoly.construct.aspolynomial.aspolynomial": ("poly_like", "names", "dtype"),
    "numpoly.construct.from_attributes.polynomial_from_attributes": ("exponents", "coefficients", "names", "dtype"),
    "numpoly.baseclass.ndpoly.from_attributes": ("exponents", "coefficients", "names", "dtype"),
    "numpoly.baseclass.ndpoly": ("exponents", "shape", "names", "dtype"),
}


def _txt(expr) -> str:
    return U(strip_tags(expr))


def _ctor(ctx, module, call):
    name = ctx.dotted(module, call.func)
    if name in CONSTRUCTORS:
        return name
    if name is None and isinstance(call.func, ast.Attribute) and call.func.attr == "from_attributes":
        return "numpoly.baseclass.ndpoly.from_attributes"
    return None


def _arg(call, name, params):
    value = kwarg(call, name)
    if value is not None:
        return value
    if name in params:
        idx = params.index(name)
        if idx < len(call.args) and not any(isinstance(a, ast.Starred) for a in call.args[: idx + 1]):
            return call.args[idx]
    return None


def _structured_storage_base(expr):
    """X when ``expr`` contains the whole structured storage ``X.values`` (not a single column)."""
    parents = {}
    for node in walk_shared(expr):
        for child in ast.iter_child_nodes(node):
            parents.setdefault(id(child), node)
    for node in walk_shared(expr):
        if isinstance(node, ast.Attribute) and node.attr == "values":
            parent = parents.get(id(node))
            if isinstance(parent, ast.Call) and parent.func is node:
                continue  # dict.values()
            if isinstance(parent, ast.Subscript) and parent.value is node:
                sl = parent.slice
                # X.values[key] is one numeric column; X.values[...] / slices keep the structure
                if not isinstance(sl, (ast.Slice, ast.Tuple)) and not (isinstance(sl, ast.Constant) and sl.value is Ellipsis):
                    continue
            return node.value
    return None


def _exponents_base(expr):
    node = expr
    for _ in range(6):
        if isinstance(node, ast.Attribute) and node.attr == "exponents":
            return node.value
        if isinstance(node, ast.Subscript):
            node = node.value
        elif isinstance(node, ast.Call) and isinstance(node.func, ast.Attribute) and node.func.attr in ("copy", "tolist", "astype"):
            node = node.func.value
        else:
            return None
    return None


def _roots(expr) -> Set[str]:
    return {n.id[1:] for n in walk_shared(expr) if isinstance(n, ast.Name) and n.id.startswith(PARAM)}


_PEEL_METHODS = {"ravel", "reshape", "flatten", "copy", "astype", "transpose", "squeeze", "view"}


def _peel(node):
    """Strip shape-only views: X.ravel()[1:].T -> X (names and exponents are unchanged by them)."""
    for _ in range(8):
        if isinstance(node, ast.Subscript) and not _is_align_call(node.value):
            node = node.value
        elif isinstance(node, ast.Attribute) and node.attr in ("T", "real", "imag"):
            node = node.value
        elif isinstance(node, ast.Call) and isinstance(node.func, ast.Attribute) and node.func.attr in _PEEL_METHODS:
            node = node.func.value
        else:
            break
    return node


def _is_align_call(node):
    if isinstance(node, ast.Call) and not is_S(node):
        func = node.func
        name = func.attr if isinstance(func, ast.Attribute) else getattr(func, "id", "")
        return name in ("align_polynomials", "align_exponents", "align_indeterminants", "align_shape",
                        "align_dtype", "broadcast_arrays")
    return False


def _names_base(node):
    for _ in range(4):
        if isinstance(node, ast.Attribute) and node.attr in ("names", "indeterminants"):
            return node.value
        if isinstance(node, ast.Call) and isinstance(node.func, ast.Name) and node.func.id in ("tuple", "list") and node.args:
            node = node.args[0]
        else:
            return None
    return None


def _fixed_operand_names(storage_base, names):
    """Text of the collection C if the storage belongs to an arbitrary element of C (Σelem(C)) while the names
    are those of C[k] for a constant k, and C is not the result of an alignment; else None."""
    name_base = _names_base(names)
    if name_base is None:
        return None
    x = _peel(storage_base)
    y = name_base
    while isinstance(y, ast.Attribute) and y.attr in ("T",):
        y = y.value
    if not (isinstance(y, ast.Subscript) and isinstance(y.slice, ast.Constant) and isinstance(y.slice.value, int)):
        return None
    coll_y = y.value
    if "align_" in _txt(coll_y)[:80] or _is_align_call(coll_y):
        return None
    # storage of an arbitrary element Σelem(C), names of C[k]
    if is_S(x, "elem") and _txt(x.args[0]) == _txt(coll_y):
        return _txt(coll_y)
    # after comprehension fusion: storage of <elt> for an arbitrary element, names of [<elt> for ...][k]
    if isinstance(coll_y, (ast.ListComp, ast.GeneratorExp)) and _txt(coll_y.elt) == _txt(x) \
            and any(is_S(n, "elem") for n in walk_shared(x)):
        return _txt(coll_y)
    return None


def _same_source(ctx, module, exp_base, names):
    """True: names come from the polynomial the exponent rows come from (or from an operand / a sibling of
    the alignment that produced it); False: exponent rows of an alignment result, names of a polynomial
    outside that alignment; None: not decided."""
    name_base = _names_base(names)
    if name_base is None:
        return None
    xs, ys = _peel(exp_base), _peel(name_base)
    if _txt(xs) == _txt(ys):
        return True
    # X = ALIGN(...)[i] (or an element of it)
    inner = xs
    while is_S(inner, "elem") or isinstance(inner, ast.Subscript):
        inner = inner.args[0] if is_S(inner) else inner.value
    if not _is_align_call(inner):
        return None
    yinner = ys
    while is_S(yinner, "elem") or isinstance(yinner, ast.Subscript):
        yinner = yinner.args[0] if is_S(yinner) else yinner.value
    if _txt(yinner) == _txt(inner):
        return True  # siblings of one alignment share names
    ytext = _txt(ys)
    for arg in inner.args:
        arg = arg.value if isinstance(arg, ast.Starred) else arg
        if _txt(_peel(arg)) == ytext:
            return True  # an operand of that alignment (its names are a subset in the same index order)
    return False


def run_names(ctx) -> RuleResult:
    result = RuleResult(
        "R-NAMES",
        "a constructor fed with raw storage (.values) or with the exponent rows (.exponents) of an input "
        "polynomial also receives names= derived from a polynomial of the same input (or an explicit "
        "names parameter); omitting it silently renames the indeterminates to q0, q1, ...",
    )
    n = 0
    for module, qual, func in ctx.repo.analysed_functions():
        if module.is_pyx:
            continue
        text = ast.unparse(func)
        if ".values" not in text and ".exponents" not in text:
            continue
        seen = set()
        for path in ctx.paths_auto(module, func):
            for step in path:
                for raw in step_exprs(step):
                    for call in calls_in(raw):
                        cname = _ctor(ctx, module, call)
                        if cname is None:
                            continue
                        ckey = (id(call), id(step.vars))
                        if ckey in seen:
                            continue
                        seen.add(ckey)
                        params = CONSTRUCTORS[cname]
                        expanded = expand_in_context(step, raw, call)
                        base = None
                        why = ""
                        if params[0] == "poly_like":
                            data = _arg(expanded, "poly_like", params)
                            if data is not None:
                                base = _structured_storage_base(data)
                                why = "raw structured storage"
                        else:
                            exps = _arg(expanded, "exponents", params)
                            if exps is not None:
                                base = _exponents_base(exps)
                                why = "exponent rows"
                        if base is None:
                            continue
                        n += 1
                        names = _arg(expanded, "names", params)
                        ok = False
                        detail = "names= is not passed"
                        if names is not None:
                            ntext = _txt(names)
                            detail = f"names={ntext[:80]}"
                            from_names = ".names" in ntext or ".indeterminants" in ntext
                            explicit = any(is_param(x) and x.id[1:] == "names" for x in walk_shared(names))
                            ok = from_names or explicit or bool(_roots(names))
                        ident = f"{module.name}.{qual}: {cname.split('.')[-1]}({why} of {_txt(base)[:40]}) gets names"
                        result.ob(ident, ok, module.loc(step.orig), detail)
                        if ok and why == "raw structured storage":
                            fixed = _fixed_operand_names(base, names)
                            if fixed is not None:
                                result.ob(f"{module.name}.{qual}: every operand's storage is re-wrapped with that operand's names",
                                          False, module.loc(step.orig), detail[:80])
                                result.add(Finding(
                                    "R-NAMES", module, qual, call,
                                    f"{cname.split('.')[-1]} re-wraps the storage of each element of '{fixed[:50]}' with the names of "
                                    f"one fixed element of that collection ({detail[:70]}): the operands are not aligned, so an "
                                    f"operand with other indeterminates is silently renamed",
                                    derivation=describe_path(path), construct="storage of every operand, names of one"))
                        if ok and why == "exponent rows":
                            verdict = _same_source(ctx, module, base, names)
                            if verdict is not None:
                                result.ob(f"{module.name}.{qual}: exponent rows and names of "
                                          f"{cname.split('.')[-1]}(...) come from the same (aligned) polynomial",
                                          verdict, module.loc(step.orig), f"{_txt(base)[:60]} / {detail[:60]}")
                                if not verdict:
                                    result.add(Finding(
                                        "R-NAMES", module, qual, call,
                                        f"{cname.split('.')[-1]} takes its exponent rows from the alignment result "
                                        f"'{_txt(base)[:70]}' but {detail[:90]}, a polynomial that is neither that result "
                                        f"nor an operand of that alignment: the exponent matrix has one column per name of "
                                        f"the union, the names tuple does not",
                                        derivation=describe_path(path), construct="exponents/names of different polynomials"))
                        if not ok:
                            result.add(Finding(
                                "R-NAMES", module, qual, call,
                                f"{cname.split('.')[-1]} is built from the {why} of '{_txt(base)[:60]}' but "
                                f"{detail}: the result's indeterminates are renamed positionally (q0, q1, ...) "
                                f"instead of keeping the input's names", derivation=describe_path(path)))
    result.info["constructor_sites"] = n
    result.floor = 40
    return result


def run_getitem(ctx) -> RuleResult:
    result = RuleResult(
        "R-GETITEM",
        "__getitem__ applies the caller's index to every coefficient column separately and rebuilds "
        "with the same exponents and names; __iter__ slices every column with the same position",
    )
    module = ctx.repo.module("numpoly.baseclass")
    func = ctx.repo.function(module.name, "ndpoly.__getitem__")
    iparam = [a.arg for a in func.args.args][1]
    for path in ctx.paths(module, func):
        last = path[-1]
        if last.kind != "return":
            continue
        value = last.expand(last.node.value)
        if not isinstance(value, ast.Call):
            raise AnalysisError("__getitem__: unrecognised return")
        params = CONSTRUCTORS.get(_ctor(ctx, module, value) or "", None)
        if params is None:
            raise AnalysisError("__getitem__ does not rebuild through a constructor")
        coefs = _arg(value, "coefficients", params)
        exps = _arg(value, "exponents", params)
        names = _arg(value, "names", params)
        parents = {}
        for node in walk_shared(coefs):
            for child in ast.iter_child_nodes(node):
                parents.setdefault(id(child), node)
        uses = [n for n in walk_shared(coefs) if is_param(n, iparam)]
        ok = bool(uses)
        why = "the index is not used"
        for use in uses:
            parent = parents.get(id(use))
            good = (
                isinstance(parent, ast.Subscript) and parent.slice is use and is_S(parent.value, "elem")
                and _txt(parent.value.args[0]).endswith("self.coefficients")
            )
            if not good:
                ok = False
                why = f"the index is used as {_txt(parent)[:80] if parent is not None else '?'}"
        result.ob("__getitem__: index applied per coefficient column", ok, module.loc(last.orig), _txt(coefs)[:120])
        if not ok:
            result.add(Finding(
                "R-GETITEM", module, "ndpoly.__getitem__", last.node,
                f"the caller's index must subscript each coefficient column on its own "
                f"([coeff[index] for coeff in self.coefficients]); {why} - combined with an extra leading "
                f"term axis numpy's advanced-indexing rules place elements differently"))
        for label, expr, attr in (("exponents", exps, "exponents"), ("names", names, "names")):
            good = expr is not None and isinstance(expr, ast.Attribute) and expr.attr in (attr, "indeterminants") \
                and is_param(expr.value, "self")
            result.ob(f"__getitem__: {label}=self.{attr}", good, module.loc(last.orig), "")
            if not good:
                result.add(Finding("R-GETITEM", module, "ndpoly.__getitem__", last.node,
                                   f"{label}= is {_txt(expr) if expr is not None else 'missing'}, expected self.{attr}",
                                   construct=f"__getitem__ {label}"))
        # an element is cleaned like any other result: the all-zero terms of the other elements are not pinned
        for flag in ("retain_coefficients", "retain_names"):
            pinned = kwarg(value, flag)
            bad = isinstance(pinned, ast.Constant) and pinned.value is True and flag == "retain_coefficients"
            if pinned is not None:
                result.ob(f"__getitem__: {flag} is not pinned to True", not bad, module.loc(last.orig), _txt(pinned))
            if bad:
                result.add(Finding(
                    "R-GETITEM", module, "ndpoly.__getitem__", last.node,
                    "__getitem__ builds the element with retain_coefficients=True: p[i] then carries every exponent row of "
                    "the whole array with zero coefficients, so an indeterminate obtained by indexing (variable(3)[1]) is "
                    "no longer a single monomial for derivative(), isconstant() and the other structure queries",
                    construct="__getitem__ retain_coefficients"))
    result.floor = 3
    return result


def _operand_ids(ctx, module, expr, only_storage=False) -> Set[str]:
    """Identities ('p' or 'p[i]') of the polynomial operands an expression depends on."""
    out: Set[str] = set()

    def ident(node) -> Optional[Set[str]]:
        if is_param(node):
            return {node.id[1:]}
        if isinstance(node, ast.Subscript) and isinstance(node.value, ast.Call) and not is_S(node.value) \
                and isinstance(node.slice, ast.Constant) and isinstance(node.slice.value, int):
            name = ctx.dotted(module, node.value.func)
            if name in ALIGN_FUNCS:
                call = node.value
                idx = node.slice.value
                if not any(isinstance(a, ast.Starred) for a in call.args) and idx < len(call.args):
                    inner = visit(call.args[idx])
                    return inner
                if len(call.args) == 1 and isinstance(call.args[0], ast.Starred):
                    roots = visit(call.args[0].value)
                    return {f"{r}[{idx}]" for r in roots}
        return None

    def visit(node) -> Set[str]:
        got = ident(node)
        if got is not None:
            return got
        acc: Set[str] = set()
        for child in ast.iter_child_nodes(node):
            acc |= visit(child)
        return acc

    if not only_storage:
        return visit(expr)
    for node in walk_shared(expr):
        if isinstance(node, ast.Attribute) and node.attr in ("coefficients", "values"):
            out |= visit(node.value)
    return out


def _aligned_ids(ctx, module, expr) -> Set[str]:
    """Operand identities that are results of an align_* call inside ``expr``."""
    out: Set[str] = set()
    for node in walk_shared(expr):
        if isinstance(node, ast.Attribute) and node.attr in ("coefficients", "values"):
            base = node.value
            if isinstance(base, ast.Subscript) and isinstance(base.value, ast.Call) and not is_S(base.value) \
                    and ctx.dotted(module, base.value.func) in ALIGN_FUNCS:
                out |= _operand_ids(ctx, module, base)
    return out


def _collection_source(ctx, module, coefs, step, func):
    """Text of the aligned collection C when the coefficient data range over Σelem(C)."""
    if coefs is None:
        # raw allocation: look at the values stored later is out of reach here; use the exponents source
        return None
    for node in walk_shared(coefs):
        if isinstance(node, ast.Attribute) and node.attr in ("values", "coefficients") and is_S(node.value, "elem"):
            src = node.value.args[0]
            if isinstance(src, ast.Call) and not is_S(src) and ctx.dotted(module, src.func) in ALIGN_FUNCS:
                return _txt(src)
    return None


# functions whose numpy original keeps the dtype of its first argument instead of promoting (confirmed by reading)
DTYPE_FOLLOWS_FIRST = {
    "numpoly.array_function.ediff1d.ediff1d": "numpy.ediff1d returns the dtype of `ary`; to_begin / to_end are cast to it "
                                              "(numpy rejects what is not same_kind-castable, numpoly casts silently - "
                                              "seen, outside every claim, DESIGN 10.3)",
}


def run_dtype(ctx) -> RuleResult:
    result = RuleResult(
        "R-DTYPE",
        "(a) where a constructor combines coefficient columns of several polynomial operands, its dtype= "
        "depends on all of them (or on the computed columns); (b) constructors that accept a dtype "
        "parameter let it reach every polynomial they return",
    )
    n = 0
    for module, qual, func in ctx.repo.analysed_functions():
        if module.is_pyx or "dtype" not in ast.unparse(func):
            continue
        seen = set()
        for path in ctx.paths_auto(module, func):
            for step in path:
                for raw in step_exprs(step):
                    for call in calls_in(raw):
                        cname = _ctor(ctx, module, call)
                        if cname is None or (id(call), id(step.vars)) in seen:
                            continue
                        seen.add((id(call), id(step.vars)))
                        params = CONSTRUCTORS[cname]
                        expanded = step.expand(call)
                        dtype = _arg(expanded, "dtype", params)
                        if dtype is None:
                            continue
                        if "coefficients" in params:
                            coefs = _arg(expanded, "coefficients", params)
                            if coefs is None:
                                continue
                            ops = _operand_ids(ctx, module, coefs, only_storage=True)
                            aligned = {o for o in ops if "[" in o} | _aligned_ids(ctx, module, coefs)
                            if len(aligned) >= 2:
                                ops = aligned
                        else:
                            # numpoly.ndpoly(exponents=<from several operands>, dtype=...): a raw allocation that
                            # will receive values computed from all of them
                            exps = _arg(expanded, "exponents", params)
                            if exps is None:
                                continue
                            ops = set()
                            for node in walk_shared(exps):
                                if isinstance(node, ast.Attribute) and node.attr == "exponents":
                                    ops |= _operand_ids(ctx, module, node.value)
                            ops = {o for o in ops if o not in ("out",)}
                            base = _exponents_base(exps) if isinstance(exps, ast.Attribute) else None
                            if base is not None and isinstance(base, ast.Subscript) and isinstance(base.slice, ast.Constant):
                                coll_text = _txt(base.value)
                                dtext = _txt(dtype)
                                if ("align_" in coll_text or coll_text.startswith("tuple(")) and dtext.startswith(coll_text + "["):
                                    n += 1
                                    result.ob(f"{module.name}.{qual}: buffer dtype not taken from a fixed element of the operand "
                                              f"collection", False, module.loc(step.orig), dtext[:80])
                                    result.add(Finding(
                                        "R-DTYPE", module, qual, call,
                                        f"the buffer that will receive every element of '{coll_text[:50]}' takes its dtype from "
                                        f"{dtext[:60]}, one fixed element of that collection (whichever operand happens to come "
                                        f"first): values of the other operands are cast down - are combined but dtype ignores them",
                                        derivation=describe_path(path)))
                        coll = _collection_source(ctx, module, coefs if "coefficients" in params else None, step, func)
                        if coll is not None:
                            n += 1
                            dtext = _txt(dtype)
                            fixed = f"{coll}[" in dtext and f"Σelem({coll})" not in dtext
                            result.ob(f"{module.name}.{qual}: dtype of the joined result depends on every element of the "
                                      f"operand collection", not fixed, module.loc(step.orig), dtext[:100])
                            if fixed:
                                result.add(Finding(
                                    "R-DTYPE", module, qual, call,
                                    f"columns of all elements of '{coll[:60]}' are combined but dtype= ({dtext[:80]}) is taken "
                                    f"from one fixed element: values of the other operands are cast down to its dtype",
                                    derivation=describe_path(path)))
                            continue
                        if len(ops) < 2:
                            continue
                        if f"{module.name}.{qual}" in DTYPE_FOLLOWS_FIRST:
                            result.exception(f"{module.name}.{qual}", DTYPE_FOLLOWS_FIRST[f"{module.name}.{qual}"])
                            continue
                        n += 1
                        have = _operand_ids(ctx, module, dtype)
                        missing = sorted(ops - have)
                        ok = not missing
                        result.ob(f"{module.name}.{qual}: dtype of the combined result depends on {sorted(ops)}",
                                  ok, module.loc(step.orig), _txt(dtype)[:100])
                        if not ok:
                            result.add(Finding(
                                "R-DTYPE", module, qual, call,
                                f"coefficient columns of operands {sorted(ops)} are combined but dtype= "
                                f"({_txt(dtype)[:80]}) ignores {missing}: values of the ignored operand are cast "
                                f"down to the other operand's dtype", derivation=describe_path(path)))
    result.info["combining_sites"] = n
    # (b) constructor dtype parameter reaches the result
    ctor_funcs = [
        ("numpoly.construct.polynomial", "polynomial"),
        ("numpoly.construct.aspolynomial", "aspolynomial"),
        ("numpoly.construct.compose", "compose_polynomial_array"),
        ("numpoly.construct.from_attributes", "polynomial_from_attributes"),
        ("numpoly.construct.symbols", "symbols"),
        ("numpoly.construct.variable", "variable"),
        ("numpoly.construct.from_roots", "polynomial_from_roots"),
    ]
    for modname, fname in ctor_funcs:
        module = ctx.repo.module(modname)
        func = ctx.repo.function(modname, fname)
        if "dtype" not in [a.arg for a in func.args.args]:
            continue
        bad = {}
        total = 0
        for path in ctx.paths_auto(module, func):
            last = path[-1]
            if last.kind != "return" or last.node.value is None:
                continue
            if any(st.kind == "loopexit" and st.data == 0 for st in path):
                continue  # a data loop that never ran: the result is independent of everything
            total += 1
            value = last.expand(last.node.value)
            text = _txt(value)
            uses_dtype = (PARAM + "dtype") in text
            if not uses_dtype:
                # values stored into local containers that the result is built from
                for records in last.muts.values():
                    for target, stored in records:
                        if (PARAM + "dtype") in _txt(stored) or (PARAM + "dtype") in _txt(target):
                            uses_dtype = True
            dtype_none = last.fact(f"{PARAM}dtype is None") is True or last.fact(f"{PARAM}dtype") is False
            agreed = any((PARAM + "dtype") in _txt(node) for node, pol in last.fact_items())
            if uses_dtype or dtype_none or (is_param(value) and agreed):
                continue
            bad.setdefault(text[:200], (last, describe_path(path)))
        result.ob(f"{fname}: the dtype parameter reaches every returned polynomial ({total} returns)", not bad,
                  module.loc(func), "; ".join(list(bad)[:2])[:160])
        for text, (last, trace) in bad.items():
            result.add(Finding(
                "R-DTYPE", module, fname, last.node,
                f"{fname}(..., dtype=...) returns a polynomial whose provenance does not involve the "
                f"requested dtype on this path: the dtype argument is silently ignored",
                derivation=trace, construct=f"{fname}: dtype dropped :: {text[:120]}"))
    result.floor = 8
    return result


def path_steps_with_ctor(ctx, module, trace, last):
    return []


def run_pair(ctx) -> RuleResult:
    result = RuleResult(
        "R-PAIR",
        "exponents= and coefficients= handed to a constructor are paired by one traversal order: both "
        "from the same dict iteration / same sympy ordering, or the coefficients are looked up by the "
        "exponent sequence itself",
    )
    n = 0
    for module, qual, func in ctx.repo.analysed_functions():
        if module.is_pyx:
            continue
        seen = set()
        src = ast.unparse(func)
        if "exponents" not in src or "coefficients" not in src:
            continue
        for path in ctx.paths_auto(module, func):
            for step in path:
                for raw in step_exprs(step):
                    for call in calls_in(raw):
                        cname = _ctor(ctx, module, call)
                        if cname is None or "coefficients" not in CONSTRUCTORS[cname]:
                            continue
                        if (id(call), id(step.vars)) in seen:
                            continue
                        seen.add((id(call), id(step.vars)))
                        params = CONSTRUCTORS[cname]
                        expanded = step.expand(call)
                        exps = _arg(expanded, "exponents", params)
                        coefs = _arg(expanded, "coefficients", params)
                        if exps is None or coefs is None:
                            continue
                        verdict = _pairing(exps, coefs)
                        if verdict is None:
                            continue
                        n += 1
                        ok, why = verdict
                        result.ob(f"{module.name}.{qual}: exponents/coefficients paired ({why})", ok,
                                  module.loc(step.orig), "")
                        if not ok:
                            result.add(Finding(
                                "R-PAIR", module, qual, call,
                                f"exponents and coefficients are not paired by one traversal: {why}",
                                derivation=describe_path(path)))
    result.info["pairing_sites"] = n
    if n < 2:
        raise AnalysisError(f"R-PAIR: only {n} order-sensitive pairing sites found (confirmed 3)")
    result.floor = 2
    return result


def _order_class(expr):
    """('dict', X, part) | ('sorted', X) | ('sympy', X, method, args) | None."""
    node = expr
    # strip list()/tuple() wrappers and comprehension identity
    while isinstance(node, ast.Call) and isinstance(node.func, ast.Name) and node.func.id in ("list", "tuple") and node.args:
        node = node.args[0]
    if isinstance(node, ast.Subscript) and isinstance(node.slice, ast.Constant) and isinstance(node.value, ast.Call) \
            and isinstance(node.value.func, ast.Name) and node.value.func.id == "zip" and node.value.args \
            and isinstance(node.value.args[0], ast.Starred):
        inner = node.value.args[0].value
        while isinstance(inner, ast.Call) and isinstance(inner.func, ast.Name) and inner.func.id in ("list", "tuple") and inner.args:
            inner = inner.args[0]
        if isinstance(inner, ast.Call) and isinstance(inner.func, ast.Attribute) and inner.func.attr == "items":
            return ("dict", _txt(inner.func.value), "items")
    if isinstance(node, ast.Call) and isinstance(node.func, ast.Name) and node.func.id == "sorted" and node.args:
        inner = node.args[0]
        if isinstance(inner, ast.Call) and isinstance(inner.func, ast.Attribute) and inner.func.attr in ("keys",):
            inner = inner.func.value
        return ("sorted", _txt(inner))
    if isinstance(node, ast.Call) and isinstance(node.func, ast.Attribute) and node.func.attr in ("keys", "values"):
        return ("dict", _txt(node.func.value), node.func.attr)
    if isinstance(node, ast.Call) and isinstance(node.func, ast.Attribute) and node.func.attr in ("monoms", "coeffs"):
        args = [_txt(a) for a in node.args] + [f"{kw.arg}={_txt(kw.value)}" for kw in node.keywords]
        return ("sympy", _txt(node.func.value), node.func.attr, tuple(args))
    if isinstance(node, ast.ListComp) and len(node.generators) == 1:
        gen = node.generators[0]
        inner = _order_class(gen.iter)
        if inner and inner[0] == "sympy":
            return inner
        # [X[key] for key in E]  -> lookup by E
        elt = node.elt
        if isinstance(elt, ast.Subscript) and is_S(elt.slice, "elem"):
            return ("lookup", _txt(elt.slice.args[0]), _txt(elt.value))
    if is_param(node) or (isinstance(node, ast.Name)):
        return None
    return None


def _pairing(exps, coefs):
    ce, cc = _order_class(exps), _order_class(coefs)
    if ce is None and cc is None:
        return None
    if cc and cc[0] == "lookup":
        ok = cc[1] == _txt(exps) or cc[1] in _txt(exps)
        return ok, "coefficients looked up by the exponent sequence" if ok else \
            f"coefficients are looked up by {cc[1][:50]}, exponents are {_txt(exps)[:50]}"
    if ce and cc and ce[0] == "dict" and cc[0] == "dict":
        ok = ce[1] == cc[1]
        return ok, f"both follow the iteration order of {ce[1][:40]}" if ok else "different dicts"
    if ce and cc and ce[0] == "sympy" and cc[0] == "sympy":
        ok = ce[1] == cc[1] and ce[3] == cc[3]
        return ok, ("monoms()/coeffs() of the same polynomial with the same ordering arguments" if ok else
                    f"monoms{ce[3]} and coeffs{cc[3]} use different orderings")
    if ce and cc and {ce[0], cc[0]} == {"sorted", "dict"}:
        return False, (f"one side is sorted ({ce if ce[0] == 'sorted' else cc}) while the other follows the "
                       f"dict's insertion order")
    if (ce and ce[0] in ("sorted", "dict", "sympy")) or (cc and cc[0] in ("sorted", "dict", "sympy")):
        if ce is None or cc is None:
            return None
    return None


def run_colidx(ctx) -> RuleResult:
    result = RuleResult(
        "R-COLIDX",
        "a column index computed from X.names (X.names.index(...)) is applied to the exponent columns "
        "of the same polynomial X",
    )
    n = 0
    for module, qual, func in ctx.repo.analysed_functions():
        if module.is_pyx or ".names.index(" not in ast.unparse(func):
            continue
        seen = set()
        for path in ctx.paths_auto(module, func):
            for step in path:
                for raw in step_exprs(step):
                    expr = None
                    for sub in ast.walk(raw):
                        if isinstance(sub, ast.Subscript):
                            if (id(sub), id(step.vars)) in seen:
                                continue
                            exp = step.expand(sub)
                            idx_src = None
                            cands = list(exp.slice.elts) if isinstance(exp.slice, ast.Tuple) else [exp.slice]
                            for node in cands:
                                if isinstance(node, ast.Call) and isinstance(node.func, ast.Attribute) and node.func.attr == "index" \
                                        and isinstance(node.func.value, ast.Attribute) and node.func.value.attr == "names":
                                    idx_src = node.func.value.value
                            if idx_src is None:
                                continue
                            base = None
                            node = exp.value
                            for _ in range(6):
                                if isinstance(node, ast.Attribute) and node.attr == "exponents":
                                    base = node.value
                                    break
                                if isinstance(node, ast.Subscript):
                                    node = node.value
                                elif is_S(node) and node.args:
                                    node = node.args[0]
                                else:
                                    break
                            if base is None:
                                continue
                            seen.add((id(sub), id(step.vars)))
                            n += 1
                            ok = _txt(base) == _txt(idx_src)
                            result.ob(f"{module.name}.{qual}: column index from the names of the indexed polynomial",
                                      ok, module.loc(step.orig), f"{_txt(idx_src)[:60]} vs {_txt(base)[:60]}")
                            if not ok:
                                result.add(Finding(
                                    "R-COLIDX", module, qual, sub,
                                    f"the column index is looked up in the names of '{_txt(idx_src)[:70]}' but "
                                    f"applied to the exponent columns of '{_txt(base)[:70]}': with different name "
                                    f"tuples another variable (or none) is addressed", derivation=describe_path(path)))
    # compositional form: the index comes from a same-module helper.  (1) inside a helper, X.names.index(...) is taken
    # from one of the helper's own parameters; (2) at the call site the polynomial handed to the helper is the one whose
    # exponent columns are then indexed
    for module, qual, func in ctx.repo.analysed_functions():
        if module.is_pyx:
            continue
        params = [a.arg for a in func.args.posonlyargs + func.args.args]
        for node in ast.walk(func):
            if isinstance(node, ast.Call) and isinstance(node.func, ast.Attribute) and node.func.attr == "index" \
                    and isinstance(node.func.value, ast.Attribute) and node.func.value.attr == "names" \
                    and isinstance(node.func.value.value, ast.Name) and node.func.value.value.id in params \
                    and any(isinstance(p2, ast.Return) and any(n2 is node for n2 in ast.walk(p2)) for p2 in ast.walk(func)):
                helper_param = node.func.value.value.id
                n += 1
                result.ob(f"{module.name}.{qual}: returns a column index of its parameter '{helper_param}'", True,
                          module.loc(node), "")
    for module, qual, func in ctx.repo.analysed_functions():
        if module.is_pyx or ".exponents" not in ast.unparse(func):
            continue
        seen = set()
        for path in ctx.paths_auto(module, func):
            for step in path:
                for raw in step_exprs(step):
                    for sub in ast.walk(raw):
                        if not isinstance(sub, ast.Subscript) or (id(sub), id(step.vars)) in seen:
                            continue
                        exp = step.expand(sub)
                        if not isinstance(exp, ast.Subscript):
                            continue  # E[position in E] is the loop element (Σelem): no column index involved
                        cands = list(exp.slice.elts) if isinstance(exp.slice, ast.Tuple) else [exp.slice]
                        call = next((c for c in cands if isinstance(c, ast.Call) and isinstance(c.func, ast.Name)
                                     and c.func.id in module.functions and c.args and "index" in c.func.id), None)
                        if call is None:
                            continue
                        node = exp.value
                        base = None
                        for _ in range(6):
                            if isinstance(node, ast.Attribute) and node.attr == "exponents":
                                base = node.value
                                break
                            if isinstance(node, ast.Subscript):
                                node = node.value
                            elif is_S(node) and node.args:
                                node = node.args[0]
                            else:
                                break
                        if base is None:
                            continue
                        seen.add((id(sub), id(step.vars)))
                        n += 1
                        ok = _txt(call.args[0]) == _txt(base)
                        result.ob(f"{module.name}.{qual}: the index helper receives the polynomial whose columns are indexed",
                                  ok, module.loc(step.orig), f"{_txt(call.args[0])[:60]} vs {_txt(base)[:60]}")
                        if not ok:
                            result.add(Finding(
                                "R-COLIDX", module, qual, sub,
                                f"the column index is computed by {call.func.id}() for '{_txt(call.args[0])[:60]}' but applied to the "
                                f"exponent columns of '{_txt(base)[:60]}': with different name tuples another variable (or none) "
                                f"is addressed", derivation=describe_path(path)))
    result.info["sites"] = n
    if n < 2:
        raise AnalysisError(f"R-COLIDX: only {n} sites found (confirmed in derivative)")
    result.floor = 2
    return result


def run_expdtype(ctx) -> RuleResult:
    result = RuleResult(
        "R-EXPDTYPE",
        "arrays that are handed to a constructor as exponents= are created with an integer dtype of "
        "their own, never with the coefficient dtype of a polynomial",
    )
    n = 0
    for module, qual, func in ctx.repo.analysed_functions():
        if module.is_pyx or "exponents" not in ast.unparse(func):
            continue
        seen = set()
        for path in ctx.paths_auto(module, func):
            for step in path:
                for raw in step_exprs(step):
                    for call in calls_in(raw):
                        cname = _ctor(ctx, module, call)
                        if cname is None or (id(call), id(step.vars)) in seen:
                            continue
                        seen.add((id(call), id(step.vars)))
                        params = CONSTRUCTORS[cname]
                        if "exponents" not in params:
                            continue
                        exps = _arg(step.expand(call), "exponents", params)
                        if exps is None:
                            continue
                        in_lambda = {id(sub) for lam in walk_shared(exps) if isinstance(lam, ast.Lambda)
                                     for sub in ast.walk(lam.body)}
                        for node in walk_shared(exps):
                            if id(node) in in_lambda:
                                continue  # a factory (defaultdict(lambda: zeros(..., dtype))) creates values, not the key matrix
                            if isinstance(node, ast.Call) and not is_S(node):
                                name = ctx.dotted(module, node.func) or ""
                                if name in ("numpy.zeros", "numpy.ones", "numpy.empty", "numpy.full", "numpy.array", "numpy.asarray"):
                                    dt = kwarg(node, "dtype")
                                    if dt is None:
                                        continue
                                    n += 1
                                    text = _txt(dt)
                                    bad = text.endswith(".dtype") or "._dtype" in text or "result_type" in text or "common_type" in text
                                    result.ob(f"{module.name}.{qual}: exponent array created with dtype {text[:40]}", not bad,
                                              module.loc(step.orig), "")
                                    if bad:
                                        result.add(Finding(
                                            "R-EXPDTYPE", module, qual, call,
                                            f"the exponent matrix is created with dtype={text[:60]} (a coefficient dtype): "
                                            f"exponents are silently cast into it (bool collapses them to 1, int8 wraps at 128, "
                                            f"float16 rounds) and a different monomial is stored",
                                            derivation=describe_path(path)))
    result.info["exponent_array_sites"] = n
    if n < 3:
        raise AnalysisError(f"R-EXPDTYPE: only {n} exponent array creations found")
    result.floor = 3
    return result


TERM_ATTRS = {"keys", "exponents", "coefficients"}


def _term_reordering(expr):
    """(polynomial text, attribute, reordering ops) of a term-axis sequence ``X.keys[order]`` /
    ``reversed(X.exponents)`` / ``X.coefficients``; None if expr is no such sequence."""
    ops = []
    node = expr
    for _ in range(8):
        if isinstance(node, ast.Attribute) and node.attr in TERM_ATTRS:
            return _txt(node.value), node.attr, ops
        if isinstance(node, ast.Subscript):
            sl = node.slice
            full = isinstance(sl, ast.Slice) and sl.lower is None and sl.upper is None and sl.step is None
            if isinstance(sl, ast.Tuple):
                # [rows, cols]: only the row part reorders terms
                sl = sl.elts[0]
                full = isinstance(sl, ast.Slice) and sl.lower is None and sl.upper is None and sl.step is None
            if not full:
                ops.append("[" + _txt(sl) + "]")
            node = node.value
        elif isinstance(node, ast.Call) and isinstance(node.func, ast.Name) and node.func.id in ("reversed", "sorted") and node.args:
            ops.append(node.func.id)
            node = node.args[0]
        elif isinstance(node, ast.Call) and isinstance(node.func, ast.Name) and node.func.id in ("list", "tuple", "iter") and node.args:
            node = node.args[0]
        elif isinstance(node, ast.Call) and isinstance(node.func, ast.Attribute) and node.func.attr in ("copy", "tolist", "astype"):
            node = node.func.value
        elif isinstance(node, ast.Call) and not is_S(node) and isinstance(node.func, ast.Attribute) \
                and node.func.attr in ("asarray", "array") and node.args:
            node = node.args[0]
        else:
            return None
    return None


def run_termzip(ctx) -> RuleResult:
    result = RuleResult(
        "R-TERMZIP",
        "zip(...) over two term-axis sequences of ONE polynomial (.keys / .exponents / .coefficients) applies the same "
        "re-ordering (index, slice, reversal, sort) to both: a key paired with the exponent row or coefficient of another term "
        "denotes a different polynomial",
    )
    n = 0
    for module, qual, func in ctx.repo.analysed_functions():
        if module.is_pyx or "zip(" not in ast.unparse(func):
            continue
        seen = set()
        for path in ctx.paths_auto(module, func):
            for step in path:
                for raw in step_exprs(step):
                    for call in calls_in(raw):
                        if not (isinstance(call.func, ast.Name) and call.func.id == "zip") or (id(call), id(step.vars)) in seen:
                            continue
                        seen.add((id(call), id(step.vars)))
                        expanded = step.expand(call)
                        seqs = [(_term_reordering(arg), arg) for arg in expanded.args if not isinstance(arg, ast.Starred)]
                        seqs = [(info, arg) for info, arg in seqs if info is not None]
                        for i in range(len(seqs)):
                            for j in range(i + 1, len(seqs)):
                                (p1, a1, o1), (p2, a2, o2) = seqs[i][0], seqs[j][0]
                                if p1 != p2 or a1 == a2:
                                    continue
                                n += 1
                                ok = o1 == o2
                                result.ob(f"{module.name}.{qual}: zip pairs .{a1} and .{a2} of one polynomial term by term", ok,
                                          module.loc(step.orig), f"{o1} / {o2}")
                                if not ok:
                                    result.add(Finding(
                                        "R-TERMZIP", module, qual, call,
                                        f"zip pairs '{_txt(seqs[i][1])[:60]}' with '{_txt(seqs[j][1])[:60]}': the two sequences of "
                                        f"the same polynomial are not in the same term order ({o1 or 'storage order'} vs "
                                        f"{o2 or 'storage order'}), so each key / exponent row meets the coefficient or exponent "
                                        f"of another term", derivation=describe_path(path),
                                        construct=f"{qual}: zip over differently ordered term sequences"))
    result.info["zip_sites"] = n
    result.floor = 5
    return result
