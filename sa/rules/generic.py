"""Generic, site-independent rules over every function of the package.

R-MEMORDER  element order must not depend on memory layout: ravel / flatten / reshape (method or numpy function)
            with a literal order other than "C" walks the buffer in *memory* order ("K", "A") or column-major ("F");
            every consumer in this code base (headers that record .shape, numpy's flattened cumsum / cumprod,
            rebuilding with reshape) assumes logical C order, so a transposed or sliced view gives permuted elements.
            An order that is the function's own ``order`` parameter (forwarded from the caller) is the caller's choice.
R-BISECT    numpy.searchsorted / bisect.* on a sequence that was sorted with a key function: the bisection compares
            with the natural order, the sequence is ordered by the key - Engler's "beliefs contradict" rule.
Both are zero-expected on a correct tree; each carries a built-in positive example that must fire on every run.
"""
from __future__ import annotations

import ast

from .. import AnalysisError
from ..paths import U, describe_path, strip_tags
from ..report import Finding, RuleResult
from .common import calls_in, is_param, kwarg, step_exprs

FLATTENERS = {"ravel", "flatten", "reshape"}
BISECTORS = {"numpy.searchsorted", "bisect.bisect", "bisect.bisect_left", "bisect.bisect_right", "bisect.insort",
             "bisect.insort_left", "bisect.insort_right"}


def _order_of(ctx, module, call):
    """(order expression or None, description) for a flattening call."""
    name = ctx.dotted(module, call.func) or ""
    if name in ("numpy.ravel", "numpy.reshape"):
        order = kwarg(call, "order")
        if order is None:
            pos = 1 if name == "numpy.ravel" else 2
            if len(call.args) > pos:
                order = call.args[pos]
        return order, name
    if isinstance(call.func, ast.Attribute) and call.func.attr in FLATTENERS:
        order = kwarg(call, "order")
        if order is None and call.func.attr in ("ravel", "flatten") and call.args:
            order = call.args[0]
        return order, "." + call.func.attr
    return None, ""


def _memorder_scan(ctx, module, qual, func, result, positive=False):
    n = 0
    params = {a.arg for a in func.args.posonlyargs + func.args.args + func.args.kwonlyargs}
    for node in ast.walk(func):
        if not isinstance(node, ast.Call):
            continue
        order, what = _order_of(ctx, module, node)
        if not what:
            continue
        n += 1
        if order is None:
            result.ob(f"{what} keeps logical (C) order", True, module.loc(node), "default order") if not positive else None
            continue
        literal = order.value if isinstance(order, ast.Constant) else None
        if literal in ("C", None) and isinstance(order, ast.Constant):
            if not positive:
                result.ob(f"{what} keeps logical (C) order", True, module.loc(node), repr(literal))
            continue
        if isinstance(order, ast.Name) and order.id in params:
            if not positive:
                result.ob(f"{what} uses the caller's order", True, module.loc(node), order.id)
            continue
        bad = literal in ("K", "A", "F", "k", "a", "f")
        if not positive:
            result.ob(f"{what} keeps logical (C) order", not bad, module.loc(node), U(order))
        if bad:
            if positive:
                return 1
            result.add(Finding(
                "R-MEMORDER", module, qual, node,
                f"'{U(node)[:80]}' flattens / reshapes with order={literal!r}: the element sequence then follows the memory "
                f"layout (or column-major order) of the operand, so a transposed, sliced or Fortran-ordered polynomial yields "
                f"its elements in a different sequence than numpy's logical (C) order, which shape headers, reshape and the "
                f"flattened reductions assume",
                construct=f"{what}(order={literal!r})"))
    return 0 if positive else n


POSITIVE_MEMORDER = "def f(a):\n    return a.values.ravel(order='K')\n"
POSITIVE_BISECT = ("import numpy\n\ndef f(names, wanted):\n    common = tuple(sorted(names, key=lambda x: int(x[1:])))\n"
                   "    return numpy.searchsorted(common, wanted)\n")


def run_memorder(ctx) -> RuleResult:
    result = RuleResult(
        "R-MEMORDER",
        "no ravel / flatten / reshape with a literal memory-dependent order ('K', 'A') or 'F': flattened element order is "
        "numpy's logical C order unless the caller chose the order",
    )
    total = 0
    for module, qual, func in ctx.repo.all_functions():
        if module.is_pyx:
            continue
        total += _memorder_scan(ctx, module, qual, func, result)
    # built-in positive example (zero-expected rule)
    tree = ast.parse(POSITIVE_MEMORDER)
    probe = RuleResult("probe")
    mod0 = next(iter(ctx.repo.modules.values()))
    if _memorder_scan(ctx, mod0, "f", tree.body[0], probe, positive=True) != 1:
        raise AnalysisError("R-MEMORDER: built-in positive example not recognised")
    result.ob("built-in positive example (ravel(order='K')) is reported", True, "<positive example>", "")
    result.info["flattening_call_sites"] = total
    result.floor = 20
    return result


def _sorted_with_key(expr):
    """The ``sorted(..., key=K)`` / ``.sort(key=K)`` call the expression is built from (through tuple()/list())."""
    node = expr
    while isinstance(node, ast.Call) and isinstance(node.func, ast.Name) and node.func.id in ("tuple", "list") and node.args:
        node = node.args[0]
    if isinstance(node, ast.Call) and isinstance(node.func, ast.Name) and node.func.id == "sorted":
        key = kwarg(node, "key")
        if key is not None and not (isinstance(key, ast.Constant) and key.value is None):
            return node, key
    return None, None


def _bisect_scan(ctx, module, qual, func, result, paths):
    n = 0
    seen = set()
    for path in paths:
        for step in path:
            for raw in step_exprs(step):
                for call in calls_in(raw):
                    name = ctx.dotted(module, call.func) or ""
                    if name not in BISECTORS or not call.args:
                        continue
                    hay = strip_tags(step.expand(call.args[0]))
                    key = (id(call), U(hay))
                    if key in seen:
                        continue
                    seen.add(key)
                    n += 1
                    srt, keyfn = _sorted_with_key(hay)
                    ok = srt is None
                    result.ob(f"{name}: haystack is not ordered by a key function", ok, module.loc(step.orig), U(hay)[:80])
                    if not ok:
                        result.add(Finding(
                            "R-BISECT", module, qual, call,
                            f"'{name}' bisects '{U(call.args[0])}' with the natural order of its elements, but that sequence was "
                            f"sorted with key={U(keyfn)[:60]}: where the two orders differ (e.g. 'q10' < 'q2' as strings, 2 < 10 by "
                            f"the key) the returned positions are wrong - look the element up by equality (index / dict) instead",
                            derivation=describe_path(path), construct=f"{name} on a key-sorted sequence"))
    return n


def run_bisect(ctx) -> RuleResult:
    result = RuleResult(
        "R-BISECT",
        "no bisection (numpy.searchsorted, bisect.*) on a sequence that was sorted with a key function",
    )
    total = 0
    for module, qual, func in ctx.repo.all_functions():
        if module.is_pyx:
            continue
        text = U(func)
        if "searchsorted" not in text and "bisect" not in text:
            continue
        total += _bisect_scan(ctx, module, qual, func, result, ctx.paths_auto(module, func))
    # built-in positive example: the same scan over a synthetic module added to a copy of the source model
    if not getattr(ctx, "_is_probe", False):
        from ..ctx import Ctx
        from ..repo import Repo

        overrides = dict(ctx.repo.overrides)
        overrides["numpoly/_positive_bisect.py"] = POSITIVE_BISECT
        pctx = Ctx(Repo(root=ctx.repo.root, overrides=overrides))
        pctx._is_probe = True
        pmod = pctx.repo.module("numpoly._positive_bisect")
        probe = RuleResult("probe")
        _bisect_scan(pctx, pmod, "f", pmod.functions["f"], probe, pctx.paths_auto(pmod, pmod.functions["f"]))
        if not probe.findings:
            raise AnalysisError("R-BISECT: built-in positive example not recognised")
    result.ob("built-in positive example (searchsorted on a key-sorted tuple) is reported", True, "numpoly/_positive_bisect.py:5", "")
    result.info["bisection_call_sites"] = total
    result.floor = 0
    return result


def run_sigpos(ctx) -> RuleResult:
    """numpy hands the caller's positional arguments through unchanged (A-DISPATCH), so ``numpy.f(poly, 1, None, True)``
    binds them to the *wrapper's* parameters by position: a parameter the wrapper shares by name with the numpy
    signature must sit at numpy's position, or the numpy spelling and the keyword spelling disagree."""
    from .. import numpyfacts

    result = RuleResult(
        "R-SIGPOS",
        "every positional parameter a registered wrapper shares by name with the numpy function it is registered for "
        "sits at the same position as in numpy's signature (positional calls through numpy bind by position)",
    )
    for reg in ctx.regs:
        func = reg.func
        wparams = [a.arg for a in func.args.posonlyargs + func.args.args]
        for target in reg.targets:
            if target.startswith("builtin:"):
                continue
            sig = numpyfacts.signature(target)
            if sig is None:
                continue
            nparams = [p.name for p in sig.parameters.values() if p.kind in (p.POSITIONAL_ONLY, p.POSITIONAL_OR_KEYWORD)]
            for name in wparams:
                if name not in nparams:
                    continue
                wpos, npos = wparams.index(name), nparams.index(name)
                ok = wpos == npos
                result.ob(f"{func.name}({name}) at numpy's position for {target}", ok, reg.module.loc(func), f"{wpos} vs {npos}")
                if not ok:
                    shifted = [w for w in wparams[:wpos] if w not in nparams]
                    result.add(Finding(
                        "R-SIGPOS", reg.module, func.name, func,
                        f"parameter '{name}' is positional argument {wpos} of numpoly.{func.name} but {npos} of {target}"
                        f"{' (shifted by ' + ', '.join(shifted) + ')' if shifted else ''}: a positional call through numpy "
                        f"({target}(poly, ...)) binds the caller's value for '{nparams[wpos] if wpos < len(nparams) else '?'}' "
                        f"to '{name}', so the numpy spelling and the keyword / method spelling disagree",
                        construct=f"{func.name}: position of {name}"))
    result.floor = 150
    return result


def run_namepaths(ctx) -> RuleResult:
    """Return paths of one wrapper agree on the indeterminate names: if some path returns a polynomial that carries its
    operands' names (simple_dispatch, a numpoly function applied to the operands, a constructor given names=) and
    another path builds the result with a constructor from *numeric data taken out of an operand* without names=,
    the second path renames the indeterminates to q0.. and takes numpy's dtype - one of the two is wrong (Engler's
    contradiction rule).  A wrapper whose every path is numeric (remainder / divmod on constants) is consistent."""
    from .construct import CONSTRUCTORS, _arg, _ctor

    result = RuleResult(
        "R-NAMEPATHS",
        "all return paths of a registered wrapper agree on names: no 'fast path' that re-wraps numeric data taken "
        "out of an operand (.tonumpy() / .values / .coefficients) without names= next to paths that keep the names",
    )
    marks = (".tonumpy()", ".values", ".coefficients")
    seen = set()
    n = 0
    for reg in ctx.regs:
        if id(reg.func) in seen:
            continue
        seen.add(id(reg.func))
        module, func = reg.module, reg.func
        try:
            paths = ctx.paths(module, func, max_iter=1)
        except AnalysisError:
            continue
        keeps, drops = [], []
        for path in paths:
            last = path[-1]
            if last.kind != "return" or last.node.value is None:
                continue
            value = strip_tags(last.expand(last.node.value))
            if not isinstance(value, ast.Call):
                continue
            cname = _ctor(ctx, module, value)
            dotted = ctx.dotted(module, value.func) or ""
            if cname is not None and CONSTRUCTORS[cname][0] == "poly_like":
                params = CONSTRUCTORS[cname]
                data = _arg(value, "poly_like", params)
                names = _arg(value, "names", params)
                if names is not None:
                    keeps.append(path)
                elif data is not None and "π" in U(data) and any(m in U(data) for m in marks) \
                        and not (isinstance(data, ast.Name)):
                    drops.append((path, value, data))
            elif dotted == "numpoly.dispatch.simple_dispatch" or (
                    dotted.startswith("numpoly.") and cname is None and any("π" in U(a) for a in value.args)):
                keeps.append(path)
        if not keeps and not drops:
            continue
        n += 1
        ok = not (keeps and drops)
        result.ob(f"{func.name}: return paths agree on the indeterminate names", ok, module.loc(func),
                  f"{len(keeps)} path(s) keep names, {len(drops)} re-wrap operand data without names=")
        if not ok:
            path, value, data = drops[0]
            result.add(Finding(
                "R-NAMEPATHS", module, func.name, path[-1].node,
                f"one return path of '{func.name}' re-wraps numeric data taken out of an operand ({U(data)[:70]}) without names=, "
                f"while {len(keeps)} other path(s) return a polynomial that keeps the operands' names: on that path the "
                f"indeterminates are renamed to q0.. and the dtype is numpy's, so the result depends on which path the "
                f"values select (e.g. a constant operand with names other than ('q0',))",
                derivation=describe_path(path), construct=f"{func.name}: names dropped on one return path"))
    result.info["wrappers_with_polynomial_returns"] = n
    result.floor = 40
    return result


REORDERERS = ("sorted", "numpy.lexsort", "numpy.argsort", "numpy.sort")


def run_colperm(ctx, _only=None) -> RuleResult:
    """Names and exponent columns are one table: a constructor whose names= went through a re-ordering (sorted(...),
    indexing by lexsort / argsort) must receive exponent columns that went through the *same* re-ordering.  The check
    is on provenance: the re-ordering call that occurs in the names argument must also occur in the exponents
    argument (as the column permutation, or because the columns were placed by looking names up in the sorted
    tuple)."""
    from .construct import CONSTRUCTORS, _arg, _ctor
    from .common import expand_in_context

    result = RuleResult(
        "R-COLPERM",
        "a constructor whose names= was re-ordered (sorted / lexsort / argsort) receives exponent columns permuted by the "
        "same re-ordering (names and exponent columns are one table)",
    )
    n = 0
    for module, qual, func in ctx.repo.analysed_functions():
        if module.is_pyx or (_only is not None and module.relpath != _only):
            continue
        text = U(func)
        if not any(r.split(".")[-1] + "(" in text for r in REORDERERS):
            continue
        if "names" not in text:
            continue
        seen = set()
        for path in ctx.paths_auto(module, func):
            for step in path:
                for raw in step_exprs(step):
                    for call in calls_in(raw):
                        cname = _ctor(ctx, module, call)
                        if cname is None or CONSTRUCTORS[cname][0] != "exponents":
                            continue
                        params = CONSTRUCTORS[cname]
                        expanded = strip_tags(expand_in_context(step, raw, call))
                        names = _arg(expanded, "names", params)
                        exps = _arg(expanded, "exponents", params)
                        if names is None or exps is None:
                            continue
                        reorders = []
                        for node in ast.walk(names):
                            if isinstance(node, ast.Call):
                                dn = ctx.dotted(module, node.func) or (node.func.id if isinstance(node.func, ast.Name) else "")
                                if dn in REORDERERS:
                                    reorders.append(node)
                        if not reorders:
                            continue
                        key = (id(call), U(names), U(exps))
                        if key in seen:
                            continue
                        seen.add(key)
                        n += 1
                        etext = U(exps)
                        # mutations recorded for the local that holds the exponent matrix (exponents[:, idx] = ...)
                        raw_exps = _arg(call, "exponents", params)
                        if isinstance(raw_exps, ast.Name):
                            for mut in (step.muts or {}).get(raw_exps.id, ()):
                                try:
                                    etext += " " + U(strip_tags(step.expand(mut))) if isinstance(mut, ast.AST) else " " + str(mut)
                                except Exception:  # noqa: BLE001
                                    pass
                        by_text = {}
                        for r in reorders:
                            by_text.setdefault(U(r), r)
                        uniq = list(by_text.values())
                        outer = [r for r in uniq if not any(r is not o and U(r) in U(o) for o in uniq)] or uniq[:1]
                        ok = all(U(r) in etext for r in outer)
                        result.ob(f"{module.name}.{qual}: re-ordered names and exponent columns share the re-ordering", ok,
                                  module.loc(step.orig), U(outer[0])[:80])
                        if not ok:
                            result.add(Finding(
                                "R-COLPERM", module, qual, call,
                                f"names= of this constructor went through '{U(outer[0])[:80]}' but the exponent matrix "
                                f"'{U(raw_exps)[:40] if raw_exps is not None else ''}' did not: the names are re-ordered while their "
                                f"exponent columns stay where they were, so powers move to another indeterminate whenever the "
                                f"re-ordering is not the identity (e.g. names with a gap such as q0, q3 next to new default names)",
                                derivation=describe_path(path), construct="names re-ordered, exponent columns not"))
    # built-in positive example
    if not getattr(ctx, "_is_probe", False):
        from ..ctx import Ctx
        from ..repo import Repo

        overrides = dict(ctx.repo.overrides)
        overrides["numpoly/_positive_colperm.py"] = (
            "import numpoly\n\ndef f(poly, extra):\n    names_ = list(poly.names) + extra\n"
            "    return numpoly.polynomial_from_attributes(exponents=poly.exponents, coefficients=poly.coefficients,\n"
            "                                             names=tuple(sorted(names_)))\n")
        pctx = Ctx(Repo(root=ctx.repo.root, overrides=overrides))
        pctx._is_probe = True
        sub = run_colperm(pctx, _only="numpoly/_positive_colperm.py")
        if not any(f.relpath.endswith("_positive_colperm.py") for f in sub.findings):
            raise AnalysisError("R-COLPERM: built-in positive example not recognised")
    result.ob("built-in positive example (sorted names, unpermuted exponents) is reported", True, "<positive example>", "")
    result.info["constructor_sites_with_reordered_names"] = n
    result.floor = 1
    return result


# parameters whose default does not determine values / shape / element order of the result
DEFAULT_NOT_VALUE = {"out", "where", "dtype", "order", "subok", "casting", "like"}


def run_defaults(ctx) -> RuleResult:
    """``numpy.f(poly)`` and ``numpoly.f(poly)`` run the wrapper with the *wrapper's* defaults; the wrapper mirrors numpy
    only if a parameter it shares with numpy's signature has the same literal default (numpy's <no value> sentinel
    counts as False / None)."""
    import inspect

    from .. import numpyfacts

    result = RuleResult(
        "R-DEFAULTS",
        "every value/shape-determining parameter a registered wrapper shares by name with the numpy function it mirrors "
        "has numpy's literal default (numpy's <no value> sentinel counts as False / None)",
    )
    for reg in ctx.regs:
        func = reg.func
        args = func.args
        pos = args.posonlyargs + args.args
        defaults = dict(zip([p.arg for p in pos][len(pos) - len(args.defaults):], args.defaults))
        defaults.update({k.arg: d for k, d in zip(args.kwonlyargs, args.kw_defaults) if d is not None})
        for target in reg.targets:
            if target.startswith("builtin:"):
                continue
            sig = numpyfacts.signature(target)
            if sig is None:
                continue
            for name, node in defaults.items():
                if name in DEFAULT_NOT_VALUE or name not in sig.parameters:
                    continue
                ndef = sig.parameters[name].default
                if ndef is inspect.Parameter.empty:
                    continue  # numpy requires it; a default in the wrapper only adds a spelling
                try:
                    wdef = ast.literal_eval(node)
                except (ValueError, SyntaxError):
                    continue  # not a literal
                if not isinstance(ndef, (int, float, str, bool, type(None), tuple)):
                    no_value = "no value" in repr(ndef).lower()
                    ok = no_value and wdef in (False, None)
                    if not no_value:
                        continue
                else:
                    ok = wdef == ndef and type(wdef) is type(ndef)
                result.ob(f"{func.name}({name}=...) has the default of {target}", ok, reg.module.loc(func),
                          f"{wdef!r} vs {ndef!r}")
                if not ok:
                    result.add(Finding(
                        "R-DEFAULTS", reg.module, func.name, func,
                        f"parameter '{name}' of numpoly.{func.name} defaults to {wdef!r}, {target} defaults to {ndef!r}: called "
                        f"without '{name}' (through numpy or numpoly alike) the wrapper does something else than the numpy "
                        f"function it mirrors",
                        construct=f"{func.name}: default of {name}"))
    result.floor = 60
    return result


def _dealign(ctx, module, expr):
    """``align_*(a, b, ...)[i]`` denotes the i-th argument (alignment changes representation only)."""
    import copy

    class T(ast.NodeTransformer):
        def visit_Subscript(self, node):
            self.generic_visit(node)
            if isinstance(node.value, ast.Call) and isinstance(node.slice, ast.Constant) and isinstance(node.slice.value, int):
                name = ctx.dotted(module, node.value.func) or ""
                if name.rsplit(".", 1)[-1] in ("align_polynomials", "align_exponents", "align_indeterminants", "align_shape", "align_dtype") \
                        and 0 <= node.slice.value < len(node.value.args) \
                        and not any(isinstance(a, ast.Starred) for a in node.value.args):
                    return node.value.args[node.slice.value]
            return node

        def visit_Call(self, node):
            self.generic_visit(node)
            name = ctx.dotted(module, node.func) or ""
            if name.rsplit(".", 1)[-1] in ("aspolynomial",) and len(node.args) == 1 and not node.keywords:
                return node.args[0]
            return node

    return T().visit(copy.deepcopy(expr))


def run_dtypekw(ctx) -> RuleResult:
    """A ``dtype=`` keyword handed to a numpy / numpoly function whose data argument was computed from two operands
    must not be the dtype of one of them: products and sums of mixed dtypes are truncated (int * float) or lose
    their imaginary part (real * complex) when forced into the first operand's dtype."""
    import re

    result = RuleResult(
        "R-DTYPEKW",
        "a dtype= keyword on data computed from several operands is not the dtype of a single one of them",
    )
    n = 0
    for module, qual, func in ctx.repo.analysed_functions():
        if module.is_pyx:
            continue
        text = U(func)
        if "dtype=" not in text or ".dtype" not in text:
            continue
        params = [a.arg for a in func.args.posonlyargs + func.args.args]
        seen = set()
        for path in ctx.paths_auto(module, func):
            for step in path:
                for raw in step_exprs(step):
                    for call in calls_in(raw):
                        dt = kwarg(call, "dtype")
                        if dt is None or not call.args:
                            continue
                        name = ctx.dotted(module, call.func) or ""
                        if not name.startswith(("numpy.", "numpoly.")):
                            continue
                        if name.rsplit(".", 1)[-1] in ("zeros", "ones", "empty", "full", "eye", "arange", "zeros_like", "ones_like",
                                                       "empty_like", "full_like", "ndarray", "dtype", "result_type"):
                            continue  # the first argument is a shape / prototype, not combined values
                        if not (isinstance(dt, ast.Name) or U(dt).endswith(".dtype")):
                            continue  # a literal / computed dtype: not one operand's
                        dt_exp = strip_tags(step.expand(dt))
                        pre = (id(call), U(dt_exp))
                        if pre in seen:
                            continue
                        seen.add(pre)
                        dtext = U(_dealign(ctx, module, dt_exp))
                        if not dtext.endswith(".dtype"):
                            continue
                        dparams = set(re.findall(r"π(\w+)", dtext))
                        if len(dparams) != 1:
                            continue
                        data = U(_dealign(ctx, module, strip_tags(step.expand(call.args[0]))))
                        # operands of the data: parameters that occur as operands of arithmetic on both sides
                        aparams = {p for p in re.findall(r"π(\w+)", data) if p in params}
                        others = aparams - dparams
                        combined = bool(others) and bool(dparams & aparams) and any(
                            op in data for op in ("multiply(", "add(", "subtract(", " * ", " + ", " - ", "matmul(", "outer(", "inner("))
                        n += 1
                        result.ob(f"{module.name}.{qual}: dtype= of {name.rsplit('.', 1)[-1]} is not one operand's dtype while the data "
                                  f"combines several", not combined, module.loc(step.orig), f"dtype={dtext[:50]}")
                        if combined:
                            result.add(Finding(
                                "R-DTYPEKW", module, qual, call,
                                f"'{U(call)[:90]}' forces the dtype of '{sorted(dparams)[0]}' on data computed from "
                                f"{sorted(aparams)}: with mixed dtypes (integer and float, real and complex) the combined values are "
                                f"truncated or lose their imaginary part instead of taking numpy's promoted dtype",
                                derivation=describe_path(path), construct=f"{qual}: dtype of one operand on combined data"))
    result.ob("rule scanned every dtype= keyword whose value is <operand>.dtype", True, "<all functions>", f"{n} site(s)")
    result.info["dtype_keyword_sites"] = n
    result.floor = 1
    return result


CHAR_CLASSES = {"isdigit", "isnumeric", "isdecimal", "isalpha", "isalnum", "isspace", "isprintable", "isidentifier",
                "isascii", "islower", "isupper"}


def run_keyclass(ctx, _only=None) -> RuleResult:
    """Storage keys are arbitrary code points (exponent + offset, one character per indeterminate): any Unicode
    character class contains real keys (superscript and Arabic-Indic digits are 'digits', many code points are
    'alphabetic' or 'space'), so a character-class predicate on key strings mistakes terms for something else."""
    from .common import expand_in_context

    result = RuleResult(
        "R-KEYCLASS",
        "no character-class predicate (str.isdigit / isalpha / ..., numpy.char.is*) is applied to storage keys or field "
        "names: keys are arbitrary code points, every Unicode class contains real exponent encodings",
    )
    n = 0
    for module, qual, func in ctx.repo.all_functions():
        if module.is_pyx or (_only is not None and module.relpath != _only):
            continue
        text = U(func)
        if not any(c + "(" in text for c in CHAR_CLASSES):
            continue
        seen = set()
        for path in ctx.paths_auto(module, func):
            for step in path:
                for raw in step_exprs(step):
                    for call in calls_in(raw):
                        recv = None
                        if isinstance(call.func, ast.Attribute) and call.func.attr in CHAR_CLASSES:
                            name = ctx.dotted(module, call.func) or ""
                            if name.startswith("numpy.") and call.args:
                                recv = call.args[0]
                            elif not name.startswith("numpy."):
                                recv = call.func.value
                        if recv is None:
                            continue
                        rtext = U(strip_tags(expand_in_context(step, raw, recv)))
                        key = (id(call), rtext)
                        if key in seen:
                            continue
                        seen.add(key)
                        n += 1
                        on_keys = ".keys" in rtext or "dtype.names" in rtext
                        result.ob(f"{module.name}.{qual}: character-class predicate is not applied to storage keys", not on_keys,
                                  module.loc(step.orig), rtext[:80])
                        if on_keys:
                            result.add(Finding(
                                "R-KEYCLASS", module, qual, call,
                                f"'{U(call)[:70]}' classifies storage keys ({rtext[:60]}) by a Unicode character class: keys are the "
                                f"code points exponent + KEY_OFFSET, so real terms fall into the class (e.g. exponents 119, 120, 126 "
                                f"are the superscript digits, 1573.. the Arabic-Indic digits) and are treated as something else - the "
                                f"term silently disappears",
                                derivation=describe_path(path), construct=f"{qual}: character class on keys"))
    if not getattr(ctx, "_is_probe", False):
        from ..ctx import Ctx
        from ..repo import Repo

        overrides = dict(ctx.repo.overrides)
        overrides["numpoly/_positive_keyclass.py"] = (
            "def f(poly):\n    return [key for key in poly.values.dtype.names if not key.isdigit()]\n")
        pctx = Ctx(Repo(root=ctx.repo.root, overrides=overrides))
        pctx._is_probe = True
        sub = run_keyclass(pctx, _only="numpoly/_positive_keyclass.py")
        if not sub.findings:
            raise AnalysisError("R-KEYCLASS: built-in positive example not recognised")
    result.ob("built-in positive example (isdigit on dtype.names) is reported", True, "<positive example>", "")
    result.info["character_class_calls"] = n
    result.floor = 1
    return result
