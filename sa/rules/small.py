"""R-CONST, R-STABLE, R-GUARDS: guards that must dominate an effect."""
from __future__ import annotations

import ast
from typing import List, Optional

from .. import AnalysisError
from ..paths import U, describe_path, is_S, strip_tags, walk_shared
from ..report import Finding, RuleResult
from .common import calls_in, is_param, kwarg, source_params, step_calls

FNS = "numpoly.baseclass.FeatureNotSupported"
ISCONSTANT = {"numpoly.poly_function.isconstant.isconstant", "numpoly.baseclass.ndpoly.isconstant"}


def _constant_tests(ctx, module, step):
    """[(operand provenance, polarity)] for every isconstant() assumption known at step."""
    out = []
    for node, polarity in step.fact_items():
        if isinstance(node, ast.Call) and not is_S(node):
            name = ctx.dotted(module, node.func)
            if name in ISCONSTANT and node.args:
                out.append((node.args[0], polarity))
            elif name is None and isinstance(node.func, ast.Attribute) and node.func.attr == "isconstant":
                out.append((node.func.value, polarity))
    return out


def run_const(ctx) -> RuleResult:
    """Numeric division is guarded (C11 last sentence)."""
    result = RuleResult(
        "R-CONST",
        "true_divide/floor_divide/remainder/divmod: every path to the numeric numpy ufunc or to a "
        "normal return passes divisor.isconstant() with the non-constant edge raising FeatureNotSupported",
    )
    for name in ("true_divide", "floor_divide", "remainder", "divmod"):
        modname = f"numpoly.array_function.{name}"
        module = ctx.repo.module(modname)
        func = ctx.repo.function(modname, name)
        params = [a.arg for a in func.args.args]
        divisor = params[1]
        numeric = f"numpy.{name}"
        paths = ctx.paths(module, func)
        n_raise = 0
        for path in paths:
            trace = describe_path(path)
            last = path[-1]

            def divisor_constant(step) -> bool:
                for operand, polarity in _constant_tests(ctx, module, step):
                    if polarity is True and divisor in source_params(ctx, module, operand):
                        return True
                return False

            for step in path:
                if step.kind not in ("stmt", "return"):
                    continue
                for call in calls_in(step.node):
                    if ctx.dotted(module, call.func) == numeric:
                        ok = divisor_constant(step)
                        result.ob(f"{name}: {numeric} only with a constant divisor [{' / '.join(trace)}]",
                                  ok, module.loc(step.orig), "")
                        if not ok:
                            result.add(Finding(
                                "R-CONST", module, name, call,
                                f"{numeric} is applied coefficient-wise on a path where the divisor "
                                f"'{divisor}' was not established to be constant", derivation=trace))
            if last.kind in ("return", "end"):
                ok = divisor_constant(last)
                result.ob(f"{name}: normal return only with a constant divisor [{' / '.join(trace)}]",
                          ok, module.loc(last.orig), "")
                if not ok:
                    result.add(Finding(
                        "R-CONST", module, name, last.node,
                        f"returns normally although the divisor '{divisor}' may be a non-constant "
                        f"polynomial (must raise FeatureNotSupported)", derivation=trace))
            elif last.kind == "raise":
                assumes = [st for st in path if st.kind == "assume"]
                nonconst = False
                if assumes:
                    test = assumes[-1].expand(assumes[-1].node)
                    for call in calls_in(test):
                        cname = ctx.dotted(module, call.func)
                        operand = None
                        if cname in ISCONSTANT and call.args:
                            operand = call.args[0]
                        elif cname is None and isinstance(call.func, ast.Attribute) and call.func.attr == "isconstant":
                            operand = call.func.value
                        if operand is not None and divisor in source_params(ctx, module, operand):
                            nonconst = True
                if nonconst:
                    exc = last.node.exc
                    target = exc.func if isinstance(exc, ast.Call) else exc
                    cls = ctx.dotted(module, target) if target is not None else None
                    ok = cls == FNS
                    n_raise += 1
                    result.ob(f"{name}: non-constant divisor raises FeatureNotSupported", ok,
                              module.loc(last.orig), "")
                    if not ok:
                        result.add(Finding("R-CONST", module, name, last.node,
                                           f"non-constant divisor raises {cls} instead of FeatureNotSupported",
                                           derivation=trace))
        if n_raise == 0:
            result.ob(f"{name}: has a path rejecting a non-constant divisor", False, module.loc(func), "")
            result.add(Finding("R-CONST", module, name, func,
                               "no path raises for a non-constant divisor", construct=f"def {name}"))
    result.floor = 12
    return result


STABLE_KINDS = {"stable", "mergesort"}


def _unstable_sort(ctx, module, call: ast.Call) -> Optional[str]:
    name = ctx.dotted(module, call.func)
    attr = call.func.attr if isinstance(call.func, ast.Attribute) else None
    if name in ("numpy.argsort", "numpy.sort") or (name is None and attr in ("argsort", "sort")):
        kind = kwarg(call, "kind")
        if kind is None and name is not None and len(call.args) >= 3:
            kind = call.args[2]
        if kind is None and name is None and len(call.args) >= 2:
            kind = call.args[1]
        if isinstance(kind, ast.Constant) and kind.value in STABLE_KINDS:
            return None
        if kwarg(call, "stable") is not None and isinstance(kwarg(call, "stable"), ast.Constant) and kwarg(call, "stable").value is True:
            return None
        return f"{U(call.func)} without kind='stable'"
    if name in ("numpy.argpartition", "numpy.partition") or (name is None and attr in ("argpartition", "partition")):
        return f"{U(call.func)} is never stable"
    return None


def run_stable(ctx) -> RuleResult:
    result = RuleResult(
        "R-STABLE",
        "glexsort composes two sorts (lexicographic, then total degree); every sort primitive "
        "applied to an already ordered permutation must be stable",
    )
    modname = "numpoly.utils.glexsort"
    module = ctx.repo.module(modname)
    func = ctx.repo.function(modname, "glexsort")
    # built-in positive example: the rule must recognise an unstable primitive
    probe = ast.parse("import numpy\ndef f(x):\n    return numpy.argsort(x)\n")
    probe_call = [n for n in ast.walk(probe) if isinstance(n, ast.Call)][0]

    class _Probe:
        def dotted(self, module, expr, local_names=()):
            return "numpy.argsort"

    if _unstable_sort(_Probe(), None, probe_call) is None:
        raise AnalysisError("R-STABLE self-check failed")
    sorts = 0
    lexsort = 0
    for call in calls_in(func):
        name = ctx.dotted(module, call.func)
        if name == "numpy.lexsort":
            lexsort += 1
            result.ob("glexsort: numpy.lexsort is stable by definition", True, module.loc(call), "")
            continue
        attr = call.func.attr if isinstance(call.func, ast.Attribute) else None
        if name in ("numpy.argsort", "numpy.sort", "numpy.argpartition", "numpy.partition") or (
            name is None and attr in ("argsort", "sort", "argpartition", "partition")
        ):
            sorts += 1
            problem = _unstable_sort(ctx, module, call)
            result.ob(f"glexsort: {U(call.func)} is stable", problem is None, module.loc(call), problem or "")
            if problem:
                result.add(Finding(
                    "R-STABLE", module, "glexsort", call,
                    f"{problem}: re-sorting the lexicographically sorted permutation by total degree "
                    f"with an unstable sort loses the tie-break (platform dependent order)"))
    result.info["sort_primitives"] = sorts + lexsort
    if sorts + lexsort == 0:
        raise AnalysisError("glexsort contains no sort primitive (anchor changed)")
    result.floor = 1
    return result


def run_glex(ctx) -> RuleResult:
    result = RuleResult(
        "R-GLEX",
        "glexsort: numpy.lexsort receives the keys promoted to 2-D (one row per key); with reverse the ROWS of "
        "that 2-D array are reversed (key priority), never the elements of a 1-D key or the columns",
    )
    modname = "numpoly.utils.glexsort"
    module = ctx.repo.module(modname)
    func = ctx.repo.function(modname, "glexsort")
    params = [a.arg for a in func.args.args]
    if "reverse" not in params:
        raise AnalysisError("glexsort has no 'reverse' parameter (anchor changed)")
    n = 0
    for path in ctx.paths_auto(module, func):
        polarity = None
        for step in path:
            if step.kind == "assume":
                test = step.expand(step.node)
                neg = False
                while isinstance(test, ast.UnaryOp) and isinstance(test.op, ast.Not):
                    neg, test = not neg, test.operand
                if is_param(test, "reverse"):
                    polarity = bool(step.data) != neg
        lex = None
        for step in path:
            for call in step_calls(step):
                if ctx.dotted(module, call.func) == "numpy.lexsort" and call.args:
                    lex = (step, step.expand(call.args[0]))
        if lex is None or polarity is None:
            continue
        step, arg = lex
        n += 1
        verdict, why = _row_reversal(ctx, module, arg, polarity)
        if verdict is None:
            raise AnalysisError(f"glexsort: lexsort argument not recognised: {U(strip_tags(arg))[:100]}")
        result.ob(f"glexsort(reverse={polarity}): lexsort gets the 2-D keys" + (" with rows reversed" if polarity else ""),
                  verdict, module.loc(step.orig), U(strip_tags(arg))[:100])
        if not verdict:
            result.add(Finding(
                "R-GLEX", module, "glexsort", step.node,
                f"with reverse={polarity} numpy.lexsort receives {U(strip_tags(arg))[:80]}: {why}",
                derivation=describe_path(path), construct=f"glexsort: lexsort argument (reverse={polarity})"))
    if n < 2:
        raise AnalysisError(f"glexsort: only {n} lexsort paths recognised (expected reverse and not reverse)")
    result.floor = 2
    return result


def _row_reversal(ctx, module, arg, reverse):
    """(ok, why) for the lexsort argument."""
    def has_2d(node):
        return any(isinstance(n, ast.Call) and not is_S(n) and (ctx.dotted(module, n.func) or "") in
                   ("numpy.atleast_2d",) for n in walk_shared(node))

    def reversal(node):
        """('rows'|'cols'|'flat', inner) if node is a reversal of inner else None"""
        if isinstance(node, ast.Subscript):
            sl = node.slice
            def is_rev(x):
                return isinstance(x, ast.Slice) and x.lower is None and x.upper is None and isinstance(x.step, ast.UnaryOp) \
                    and isinstance(x.step.op, ast.USub) and isinstance(x.step.operand, ast.Constant) and x.step.operand.value == 1
            if is_rev(sl):
                return "rows", node.value
            if isinstance(sl, ast.Tuple) and len(sl.elts) == 2:
                if is_rev(sl.elts[0]) and isinstance(sl.elts[1], ast.Slice) and not is_rev(sl.elts[1]):
                    return "rows", node.value
                if is_rev(sl.elts[1]):
                    return "cols", node.value
        if isinstance(node, ast.Call) and not is_S(node):
            name = ctx.dotted(module, node.func) or ""
            if name == "numpy.flipud" and node.args:
                return "rows", node.args[0]
            if name == "numpy.fliplr" and node.args:
                return "cols", node.args[0]
            if name == "numpy.flip" and node.args:
                axis = kwarg(node, "axis") or (node.args[1] if len(node.args) > 1 else None)
                if isinstance(axis, ast.Constant) and axis.value == 0:
                    return "rows", node.args[0]
                return "cols", node.args[0]
        return None

    rev = reversal(arg)
    any_rev = any(reversal(n) is not None for n in walk_shared(arg))
    if not reverse:
        if any_rev:
            return False, "the keys are reversed although reverse is false"
        return (True, "") if has_2d(arg) else (None, "")
    if rev is None:
        if not any_rev:
            return False, "the key rows are not reversed although reverse is true"
        # reversal somewhere inside, e.g. atleast_2d(keys[::-1])
        return False, "the reversal is applied before the keys are promoted to 2-D: a single 1-D key has its " \
                      "elements reversed instead of its (only) row, so the permutation indexes the wrong positions"
    kind, inner = rev
    if kind == "cols":
        return False, "the columns (elements) are reversed, not the key rows"
    if has_2d(inner):
        return True, ""
    return False, "the reversal is applied before the keys are promoted to 2-D: a single 1-D key has its " \
                  "elements reversed instead of its (only) row, so the permutation indexes the wrong positions"


# ---------------------------------------------------------------------------
# R-GUARDS

PCE = "numpoly.construct.clean.PolynomialConstructionError"


def _raises(ctx, module, path, cls_name) -> bool:
    last = path[-1]
    if last.kind != "raise":
        return False
    exc = last.node.exc
    target = exc.func if isinstance(exc, ast.Call) else exc
    name = ctx.dotted(module, target) if target is not None else None
    if name is None and target is not None:
        name = U(target)
    return name == cls_name


def _guard_ifs(ctx, module, func, paths, exc_name):
    """{id(If node): (If node, expanded test text, raising polarity)} for every ``if`` whose
    taken branch ends in ``raise exc_name`` directly."""
    expanded = {}
    for path in paths:
        for step in path:
            if step.kind == "assume" and id(step.node) not in expanded:
                expanded[id(step.node)] = U(step.expand(step.node))
    out = {}
    for node in ast.walk(func):
        if not isinstance(node, ast.If):
            continue
        for polarity, body in ((True, node.body), (False, node.orelse)):
            for stmt in body:
                if isinstance(stmt, ast.Raise) and stmt.exc is not None:
                    target = stmt.exc.func if isinstance(stmt.exc, ast.Call) else stmt.exc
                    name = ctx.dotted(module, target) or U(target)
                    if name == exc_name and id(node.test) in expanded:
                        out[id(node)] = (node, expanded[id(node.test)], polarity)
    return out


def _passes_guard(path, guard_if, raising_polarity, func) -> bool:
    """The path took the accepting edge of the guard, or skipped an enclosing branch."""
    for step in path:
        if step.kind == "assume" and step.node is guard_if.test and step.data is (not raising_polarity):
            return True
    child = guard_if
    cur = getattr(guard_if, "_parent", None)
    while cur is not None and cur is not func:
        if isinstance(cur, ast.If):
            inside_body = any(child is s for s in cur.body)
            for step in path:
                if step.kind == "assume" and step.node is cur.test and step.data is (not inside_body):
                    return True
        child = cur
        cur = getattr(cur, "_parent", None)
    return False


def run_guards(ctx) -> RuleResult:
    result = RuleResult(
        "R-GUARDS",
        "postprocess_attributes returns only past its five validations; tonumpy returns only for "
        "constants; call rejects unknown and doubly supplied names before evaluating",
    )
    # -- postprocess_attributes ------------------------------------------------
    modname = "numpoly.construct.clean"
    module = ctx.repo.module(modname)
    func = ctx.repo.function(modname, "postprocess_attributes")
    paths = ctx.paths(module, func, max_iter=1)
    params = [a.arg for a in func.args.args]
    p_exp, p_coef, p_names = ("π" + params[0], "π" + params[1], "π" + params[2])
    guards = {
        "exponents are 2-d": lambda t: ".ndim" in t and p_exp in t,
        "len(exponents) == len(coefficients)": lambda t: "len(" in t and p_exp in t and p_coef in t and "names" not in t,
        "name count matches exponent width": lambda t: "len(" in t and p_names in t and ".shape[1]" in t,
        "names are distinct": lambda t: "set(" in t and p_names in t,
        "exponent rows are distinct": lambda t: "numpy.unique(" in t,
    }
    guard_ifs = _guard_ifs(ctx, module, func, paths, PCE)
    for label, pred in guards.items():
        hits = [(node, pol) for node, text, pol in guard_ifs.values() if pred(text)]
        ok = bool(hits)
        result.ob(f"postprocess_attributes rejects unless {label}", ok, module.loc(func), "")
        if not ok:
            result.add(Finding(
                "R-GUARDS", module, "postprocess_attributes", func,
                f"no branch raises PolynomialConstructionError for the validation '{label}'",
                construct=f"guard: {label}"))
            continue
        n_returns = 0
        for path in paths:
            last = path[-1]
            if last.kind != "return":
                continue
            n_returns += 1
            ok = any(_passes_guard(path, node, pol, func) for node, pol in hits)
            if not ok:
                trace = describe_path(path)
                result.ob(f"postprocess_attributes return passed '{label}'", False, module.loc(last.orig),
                          " / ".join(trace))
                result.add(Finding(
                    "R-GUARDS", module, "postprocess_attributes", last.node,
                    f"a normal return is reachable without the validation '{label}'", derivation=trace,
                    construct=f"return without guard: {label}"))
                break
        else:
            result.ob(f"every return of postprocess_attributes ({n_returns} paths) passed '{label}'", True,
                      module.loc(func), "")
    # -- tonumpy -------------------------------------------------------------------
    modname = "numpoly.poly_function.tonumpy"
    module = ctx.repo.module(modname)
    func = ctx.repo.function(modname, "tonumpy")
    n_raise = 0
    for path in ctx.paths(module, func):
        last = path[-1]
        trace = describe_path(path)
        tests = _constant_tests(ctx, module, last)
        if last.kind in ("return", "end"):
            ok = any(pol is True for _, pol in tests)
            result.ob(f"tonumpy returns only for constants [{' / '.join(trace)}]", ok, module.loc(last.orig), "")
            if not ok:
                result.add(Finding("R-GUARDS", module, "tonumpy", last.node,
                                   "tonumpy returns an array for a polynomial not established to be constant",
                                   derivation=trace))
        if last.kind == "return" and last.node.value is not None:
            # the coefficient column handed back is the one of the all-zero exponent row
            value = last.expand(last.node.value)
            for sub in walk_shared(value):
                if isinstance(sub, ast.Subscript) and isinstance(sub.value, ast.Attribute) and sub.value.attr == "coefficients":
                    idx = sub.slice
                    text = U(strip_tags(idx))
                    if isinstance(idx, ast.Constant) and isinstance(idx.value, int):
                        verdict = False
                    elif ".exponents" in text or ".keys" in text:
                        verdict = True
                    else:
                        raise AnalysisError(f"tonumpy: index of the returned coefficient column not recognised: {text[:80]}")
                    result.ob("tonumpy returns the coefficient of the all-zero exponent row", verdict, module.loc(last.orig), text[:80])
                    if not verdict:
                        result.add(Finding(
                            "R-GUARDS", module, "tonumpy", last.node,
                            f"tonumpy returns coefficient column {text}: the constant term is assumed to be stored at a fixed "
                            f"position, but a constant polynomial may carry all-zero non-constant terms before it "
                            f"(retain_coefficients=True, hand-built storage)", construct="tonumpy: coefficient index"))
        if last.kind == "raise" and any(pol is False for _, pol in tests):
            ok = _raises(ctx, module, path, FNS)
            n_raise += 1
            result.ob("tonumpy raises FeatureNotSupported for non-constants", ok, module.loc(last.orig), "")
            if not ok:
                result.add(Finding("R-GUARDS", module, "tonumpy", last.node,
                                   "non-constant polynomial does not raise FeatureNotSupported", derivation=trace))
    if n_raise == 0:
        result.ob("tonumpy has a rejecting path", False, module.loc(func), "")
        result.add(Finding("R-GUARDS", module, "tonumpy", func, "tonumpy never rejects a non-constant polynomial",
                           construct="def tonumpy"))
    # -- call ------------------------------------------------------------------------
    modname = "numpoly.poly_function.call"
    module = ctx.repo.module(modname)
    func = ctx.repo.function(modname, "call")
    paths = ctx.paths(module, func, max_iter=1)
    cparams = [a.arg for a in func.args.args]
    p_kwargs = "π" + cparams[2]
    guard_ifs = _guard_ifs(ctx, module, func, paths, "TypeError")
    double = [(n, pol) for n, text, pol in guard_ifs.values() if " in " in text and p_kwargs in text and "not in" not in text]
    unknown = [(n, pol) for n, text, pol in guard_ifs.values() if "not in" in text and ".names" in text]
    for label, hits in (("an argument given both positionally and by keyword", double),
                        ("an unknown indeterminate name", unknown)):
        ok = bool(hits)
        result.ob(f"call: raises TypeError for {label}", ok, module.loc(func), "")
        if not ok:
            result.add(Finding("R-GUARDS", module, "call", func,
                               f"no branch raises TypeError for {label}", construct=f"guard: {label}"))
    # the evaluation loop is entered only past the unknown-name guard
    if unknown:
        bad = None
        n_eval = 0
        for path in paths:
            evaluates = any(s.kind == "iter" and ".exponents" in U(s.expand(s.node.iter)) for s in path)
            if not evaluates:
                continue
            n_eval += 1
            if not any(_passes_guard(path, node, pol, func) for node, pol in unknown):
                bad = path
                break
        result.ob(f"call: evaluation ({n_eval} paths) only after the unknown-name guard", bad is None,
                  module.loc(func), "")
        if bad is not None:
            result.add(Finding("R-GUARDS", module, "call", func,
                               "the evaluation loop is reachable without the unknown-name check",
                               derivation=describe_path(bad), construct="evaluation before guard"))
    result.floor = 10
    return result
