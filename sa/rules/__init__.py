"""Rule catalogue (DESIGN.md section 2). Each module exposes run(ctx) -> RuleResult
or a dict of named results."""
