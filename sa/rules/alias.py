"""R-ALIAS - no write reaches storage that may alias an argument (C17).

Provenance-based may-alias analysis: for every write sink on every path the
written object's provenance expression is mapped to the set of parameters whose
storage it may share.  Only the documented output targets (``out``, ``dst``)
and ``self`` inside ``__new__``/``__array_finalize__`` may be written.
"""
from __future__ import annotations

import ast
from typing import Optional, Set

from .. import AnalysisError
from ..paths import MUTATORS, PARAM, U, describe_path, is_S, walk_shared
from ..report import Finding, RuleResult
from .common import calls_in, kwarg, step_exprs

OUTPUT_PARAMS = {"out", "dst"}
SELF_WRITERS = {"__new__", "__array_finalize__", "__init__", "__setitem__", "__setstate__"}

# numpoly callables that may hand back (a view of) their argument
MAY_ALIAS_NUMPOLY = {
    "numpoly.construct.aspolynomial.aspolynomial": "first",
    "numpoly.align.align_shape": "positional",
    "numpoly.align.align_indeterminants": "positional",
    "numpoly.dispatch.simple_dispatch": "out",
}
# numpy functions returning views of their first argument
NUMPY_VIEWS = {
    "asarray", "asanyarray", "ascontiguousarray", "asfortranarray", "atleast_1d", "atleast_2d",
    "atleast_3d", "broadcast_to", "broadcast_arrays", "reshape", "ravel", "transpose", "swapaxes",
    "moveaxis", "rollaxis", "squeeze", "expand_dims", "diagonal", "diag", "split", "array_split",
    "hsplit", "vsplit", "dsplit", "real", "imag", "flip", "fliplr", "flipud", "rot90", "nditer",
    "require", "lib.stride_tricks.as_strided", "matrix_transpose", "permute_dims",
    # structured <-> plain re-interpretations return views whenever the layout allows it
    "lib.recfunctions.structured_to_unstructured", "lib.recfunctions.unstructured_to_structured",
    "lib.stride_tricks.sliding_window_view", "lib.stride_tricks.broadcast_to",
}
VIEW_METHODS = {"ravel", "reshape", "transpose", "view", "squeeze", "swapaxes", "diagonal", "byteswap",
                "newbyteorder", "getfield", "__array__"}
FRESH_METHODS = {"copy", "astype", "flatten", "tolist", "item", "tostring", "tobytes", "sum", "prod",
                 "mean", "max", "min", "any", "all", "cumsum", "round", "conj", "conjugate", "repeat",
                 "nonzero", "argsort", "argmax", "argmin", "dot", "join", "split", "format", "keys",
                 "values", "items", "get", "index", "count", "isconstant", "tonumpy", "todict",
                 "from_attributes", "as_poly", "monoms", "coeffs", "replace", "upper", "group",
                 "readline", "decode", "startswith"}
VIEW_ATTRS = {"T", "real", "imag", "values", "flat", "base", "data", "mT"}
META_ATTRS = {"keys", "names"}  # stored on the object itself: writing through them mutates it
FRESH_ATTRS = {"coefficients", "exponents", "indeterminants", "shape", "dtype", "size", "ndim",
               "allocation", "_dtype", "flags", "strides", "itemsize", "nbytes"}
POLY_FRESH_CALLS = {
    "numpoly.construct.polynomial.polynomial", "numpoly.construct.from_attributes.polynomial_from_attributes",
    "numpoly.baseclass.ndpoly.from_attributes", "numpoly.baseclass.ndpoly",
    "numpoly.construct.clean.clean_attributes", "numpoly.align.align_exponents",
    "numpoly.align.align_polynomials",
}
C_WRITERS = {
    "numpoly.cfunctions.cfrom_attributes.cfrom_attributes": 1,
    "numpoly.cfunctions.cmultiply.cmultiply": 5,
    "numpoly.cfunctions.cvalues.cset_values": 2,
    "numpoly.cfunctions.cvalues.cadd_values": 2,
}
NUMPY_WRITERS = {"copyto": 0, "put": 0, "place": 0, "putmask": 0, "fill_diagonal": 0, "put_along_axis": 0}


class Aliases:
    def __init__(self, ctx, module):
        self.ctx = ctx
        self.module = module

    CONTAINER_BUILDERS = ("list", "tuple", "iter", "reversed", "zip", "enumerate", "sorted", "dict", "set",
                          "frozenset", "filter", "map")

    def of(self, expr, depth=0) -> Set[str]:
        """Parameters whose storage the *object* denoted by ``expr`` may share."""
        if depth > 40 or expr is None:
            return set()
        ctx, module = self.ctx, self.module
        if isinstance(expr, ast.Name):
            if expr.id.startswith(PARAM):
                return {expr.id[1:]}
            return set()
        if isinstance(expr, ast.Constant):
            return set()
        if isinstance(expr, ast.Starred):
            return self.of(expr.value, depth + 1)
        if isinstance(expr, ast.Attribute):
            if expr.attr in FRESH_ATTRS:
                return set()
            if expr.attr in VIEW_ATTRS or expr.attr in META_ATTRS:
                return self.of(expr.value, depth + 1)
            return set()
        if isinstance(expr, ast.Subscript):
            if self.is_poly(expr.value):
                return set()  # ndpoly.__getitem__ rebuilds through from_attributes
            return self.of(expr.value, depth + 1) | self.elems(expr.value, depth + 1)
        if isinstance(expr, (ast.Tuple, ast.List, ast.Set, ast.Dict, ast.ListComp, ast.SetComp,
                             ast.GeneratorExp, ast.DictComp)):
            return set()  # a fresh container (its elements may alias: see elems)
        if isinstance(expr, ast.IfExp):
            return self.of(expr.body, depth + 1) | self.of(expr.orelse, depth + 1)
        if isinstance(expr, ast.BoolOp):
            out = set()
            for value in expr.values:
                out |= self.of(value, depth + 1)
            return out
        if isinstance(expr, ast.NamedExpr):
            return self.of(expr.value, depth + 1)
        if isinstance(expr, ast.Call):
            if is_S(expr):
                kind = expr.func.id[1:]
                if kind in ("elem", "rest", "value"):
                    return self.of(expr.args[0], depth + 1) | self.elems(expr.args[0], depth + 1)
                if kind == "enter":
                    return self.of(expr.args[0], depth + 1)
                return set()
            name = ctx.dotted(module, expr.func)
            if name in MAY_ALIAS_NUMPOLY:
                mode = MAY_ALIAS_NUMPOLY[name]
                if mode == "out":
                    out_kw = kwarg(expr, "out") or (expr.args[2] if len(expr.args) > 2 else None)
                    return self.elems(out_kw, depth + 1) | self.of(out_kw, depth + 1) if out_kw is not None else set()
                if mode == "first":
                    return self.of(expr.args[0], depth + 1) if expr.args else set()
                return set()  # a fresh tuple; elements: see elems
            if name in POLY_FRESH_CALLS:
                return set()
            if name and name.startswith("numpy."):
                short = name[len("numpy."):]
                if short in ("broadcast_arrays", "split", "array_split", "hsplit", "vsplit", "dsplit", "atleast_1d",
                             "atleast_2d", "atleast_3d") and len(expr.args) != 1:
                    return set()
                if short in NUMPY_VIEWS and expr.args:
                    return self.of(expr.args[0], depth + 1)
                if short == "array":
                    copy_kw = kwarg(expr, "copy")
                    if isinstance(copy_kw, ast.Constant) and copy_kw.value is False and expr.args:
                        return self.of(expr.args[0], depth + 1)
                return set()
            if name and name.startswith("numpoly."):
                return set()
            if isinstance(expr.func, ast.Name) and expr.func.id in self.CONTAINER_BUILDERS:
                return set()
            if isinstance(expr.func, ast.Attribute) and name is None:
                if expr.func.attr in VIEW_METHODS:
                    return self.of(expr.func.value, depth + 1)
                return set()
            return set()
        return set()

    def elems(self, expr, depth=0) -> Set[str]:
        """Parameters whose storage an *element* of the container ``expr`` may share."""
        if depth > 40 or expr is None:
            return set()
        ctx, module = self.ctx, self.module
        if isinstance(expr, ast.Name):
            return {expr.id[1:]} if expr.id.startswith(PARAM) else set()
        if isinstance(expr, ast.Starred):
            return self.elems(expr.value, depth + 1)
        if isinstance(expr, (ast.Tuple, ast.List, ast.Set)):
            out: Set[str] = set()
            for elt in expr.elts:
                if isinstance(elt, ast.Starred):
                    out |= self.elems(elt.value, depth + 1)
                else:
                    out |= self.of(elt, depth + 1)
            return out
        if isinstance(expr, ast.Dict):
            out = set()
            for value in expr.values:
                out |= self.of(value, depth + 1)
            return out
        if isinstance(expr, (ast.ListComp, ast.SetComp, ast.GeneratorExp)):
            return self.of(expr.elt, depth + 1)
        if isinstance(expr, ast.DictComp):
            return self.of(expr.value, depth + 1)
        if isinstance(expr, ast.IfExp):
            return self.elems(expr.body, depth + 1) | self.elems(expr.orelse, depth + 1)
        if isinstance(expr, ast.Subscript):
            return self.elems(expr.value, depth + 1)  # a slice of a container / nested container
        if isinstance(expr, ast.Attribute):
            return set()
        if isinstance(expr, ast.Call):
            if is_S(expr):
                if expr.func.id[1:] in ("elem", "rest", "value"):
                    return self.elems(expr.args[0], depth + 1)
                return set()
            name = ctx.dotted(module, expr.func)
            if name in MAY_ALIAS_NUMPOLY and MAY_ALIAS_NUMPOLY[name] == "positional":
                out = set()
                for arg in expr.args:
                    if isinstance(arg, ast.Starred):
                        out |= self.elems(arg.value, depth + 1)
                    else:
                        out |= self.of(arg, depth + 1)
                return out
            if name and name.startswith("numpy."):
                short = name[len("numpy."):]
                if short in ("broadcast_arrays", "atleast_1d", "atleast_2d", "atleast_3d"):
                    out = set()
                    for arg in expr.args:
                        out |= self.elems(arg.value, depth + 1) if isinstance(arg, ast.Starred) else self.of(arg, depth + 1)
                    return out
                if short in ("split", "array_split", "hsplit", "vsplit", "dsplit") and expr.args:
                    return self.of(expr.args[0], depth + 1)
                return set()
            if isinstance(expr.func, ast.Name) and expr.func.id in self.CONTAINER_BUILDERS:
                out = set()
                for arg in expr.args:
                    out |= self.elems(arg, depth + 1)
                    if expr.func.id in ("zip", "enumerate", "map", "filter"):
                        out |= self.of(arg, depth + 1)
                return out
            if isinstance(expr.func, ast.Attribute) and name is None and expr.func.attr in ("values", "items", "copy"):
                return self.elems(expr.func.value, depth + 1)
            return set()
        return set()

    def is_poly(self, expr) -> bool:
        """Provenance shows the value is an ndpoly (so subscripting rebuilds)."""
        ctx, module = self.ctx, self.module
        if isinstance(expr, ast.Call) and not is_S(expr):
            name = ctx.dotted(module, expr.func)
            if name in POLY_FRESH_CALLS or name == "numpoly.construct.aspolynomial.aspolynomial":
                return True
            if isinstance(expr.func, ast.Attribute) and name is None and expr.func.attr in ("ravel", "reshape", "transpose", "copy"):
                return self.is_poly(expr.func.value)
        if isinstance(expr, ast.Subscript) and isinstance(expr.value, ast.Call) and not is_S(expr.value):
            name = ctx.dotted(module, expr.value.func)
            if name in ("numpoly.align.align_exponents", "numpoly.align.align_polynomials",
                        "numpoly.align.align_shape", "numpoly.align.align_indeterminants"):
                return True
        if isinstance(expr, ast.Attribute) and expr.attr == "T":
            return self.is_poly(expr.value)
        return False


def _written_object(target):
    """Peel subscripts: the object whose storage a store through ``target`` changes."""
    node = target
    while isinstance(node, ast.Subscript):
        node = node.value
    return node


def run(ctx) -> RuleResult:
    result = RuleResult(
        "R-ALIAS",
        "no store, augmented assignment, out= keyword, in-place numpy writer, mutating method or raw C "
        "writer targets storage that may alias a parameter other than out/dst (self in __new__/"
        "__array_finalize__)",
    )
    n_sinks = n_funcs = 0
    for module, qual, func in ctx.repo.analysed_functions():
        if module.is_pyx:
            continue
        if func.name in module.absorbed:
            continue  # private helper inlined into every caller: its writes are judged there
        n_funcs += 1
        allowed = set(OUTPUT_PARAMS)
        if func.name in SELF_WRITERS:
            allowed |= {"self", "cls"}
        paths = ctx.paths_auto(module, func)
        al = Aliases(ctx, module)
        seen = set()
        local_names = ctx.locals_of(func)
        for path in paths:
            for step in path:
                for kind, node, written in _write_sinks(ctx, module, step, local_names):
                    ckey = (id(node), id(step.vars), kind)
                    if ckey in seen:
                        continue
                    seen.add(ckey)
                    expanded = step.expand(written)
                    if kind == "augassign-name" and not _maybe_array(expanded):
                        continue
                    params = al.of(expanded) - allowed
                    n_sinks += 1
                    ok = not params
                    ident = f"{module.name}.{qual}: {kind} {U(getattr(node, '_orig', node))[:70]}"
                    result.ob(ident, ok, module.loc(step.orig), "")
                    if not ok:
                        result.add(Finding(
                            "R-ALIAS", module, qual, node,
                            f"{kind}: writes into storage that may be (a view of) argument "
                            f"'{', '.join(sorted(params))}' [provenance {U(expanded)[:120]}]",
                            derivation=describe_path(path)))
    result.info["functions"] = n_funcs
    result.info["write_sinks"] = n_sinks
    result.floor = 80
    return result


def _maybe_array(expr) -> bool:
    """AugAssign on a plain name is in-place only for mutable objects (arrays, lists)."""
    if isinstance(expr, ast.Constant):
        return False
    if isinstance(expr, ast.BinOp):
        return _maybe_array(expr.left) or _maybe_array(expr.right)
    return True


def _write_sinks(ctx, module, step, local_names):
    node = step.node
    if step.kind == "stmt":
        targets = []
        if isinstance(node, ast.Assign):
            targets = [(t, "store") for t in node.targets]
        elif isinstance(node, ast.AnnAssign) and node.value is not None:
            targets = [(node.target, "store")]
        elif isinstance(node, ast.AugAssign):
            targets = [(node.target, "augassign")]
        elif isinstance(node, ast.Delete):
            targets = [(t, "delete") for t in node.targets]
        flat = []
        for target, kind in targets:
            if isinstance(target, (ast.Tuple, ast.List)):
                flat.extend((t, kind) for t in target.elts)
            else:
                flat.append((target, kind))
        for target, kind in flat:
            if isinstance(target, ast.Subscript):
                yield kind + " through subscript", node, _written_object(target)
            elif isinstance(target, ast.Attribute):
                yield kind + " of attribute", node, target.value
            elif isinstance(target, ast.Name) and kind == "augassign":
                yield "augassign-name", node, ast.Name(id=target.id, ctx=ast.Load())
    for raw in step_exprs(step):
        for call in calls_in(raw):
            name = ctx.dotted(module, call.func, local_names)
            out_kw = kwarg(call, "out")
            if out_kw is not None and not (isinstance(out_kw, ast.Constant) and out_kw.value is None):
                if name is None or name.startswith("numpy."):
                    for elt in (out_kw.elts if isinstance(out_kw, (ast.Tuple, ast.List)) else [out_kw]):
                        yield "out= keyword", call, _written_object(elt)
            if name and name.startswith("numpy."):
                short = name.split(".")[-1]
                if short in NUMPY_WRITERS and len(call.args) > NUMPY_WRITERS[short]:
                    yield f"numpy.{short} destination", call, _written_object(call.args[NUMPY_WRITERS[short]])
                if name == "numpy.ndarray.__setitem__" and call.args:
                    yield "ndarray.__setitem__", call, call.args[0]
            if name in C_WRITERS and len(call.args) > C_WRITERS[name]:
                yield "raw C writer destination", call, call.args[C_WRITERS[name]]
            if isinstance(call.func, ast.Attribute) and name is None and call.func.attr in MUTATORS:
                yield f".{call.func.attr}() on", call, call.func.value
            if isinstance(call.func, ast.Name) and call.func.id == "setattr" and call.args:
                yield "setattr on", call, call.args[0]
            # a local lambda/closure that passes one of its own arguments as out=
            if isinstance(call.func, ast.Name):
                target = step.vars.get(call.func.id)
                if isinstance(target, ast.Lambda):
                    for idx in _lambda_out_params(target):
                        actual = _actual_argument(call, idx)
                        if actual is not None:
                            yield "out= inside a local lambda, writing into its argument", call, actual


def _lambda_out_params(lam: ast.Lambda):
    """Indices of the lambda's positional arguments that it hands to an inner call as out=."""
    args = lam.args
    names = [a.arg for a in args.posonlyargs + args.args]
    vararg = args.vararg.arg if args.vararg else None
    found = []
    for node in ast.walk(lam.body):
        if isinstance(node, ast.Call):
            for kw in node.keywords:
                if kw.arg != "out":
                    continue
                value = kw.value
                if isinstance(value, ast.Name) and value.id in names:
                    found.append(names.index(value.id))
                elif isinstance(value, ast.Subscript) and isinstance(value.value, ast.Name) and value.value.id == vararg \
                        and isinstance(value.slice, ast.Constant) and isinstance(value.slice.value, int):
                    found.append(len(names) + value.slice.value)
    return found


def _actual_argument(call: ast.Call, index: int):
    """The expression passed as positional argument ``index`` (through *[...] if needed)."""
    pos = 0
    for arg in call.args:
        if isinstance(arg, ast.Starred):
            inner = arg.value
            if isinstance(inner, (ast.List, ast.Tuple)):
                if index - pos < len(inner.elts):
                    return inner.elts[index - pos]
                pos += len(inner.elts)
                continue
            if isinstance(inner, (ast.ListComp, ast.GeneratorExp)):
                # any element of the comprehension (kept inside it so that its variables expand)
                return ast.Subscript(value=inner, slice=ast.Constant(0), ctx=ast.Load())
            return inner
        if pos == index:
            return arg
        pos += 1
    return None
