"""Helpers shared by the rules."""
from __future__ import annotations

import ast
from typing import Iterable, List, Optional, Tuple

from ..ctx import ALIGN_FUNCS, Ctx
from ..paths import PARAM, S, U, is_S, walk_shared
from ..repo import Module


def calls_in(node: ast.AST) -> Iterable[ast.Call]:
    for sub in walk_shared(node):
        if isinstance(sub, ast.Call) and not is_S(sub):
            yield sub


def kwarg(call: ast.Call, name: str) -> Optional[ast.expr]:
    for kw in call.keywords:
        if kw.arg == name:
            return kw.value
    return None


def has_starstar(call: ast.Call) -> bool:
    return any(kw.arg is None for kw in call.keywords)


def arg_or_kw(call: ast.Call, index: int, name: str) -> Optional[ast.expr]:
    value = kwarg(call, name)
    if value is not None:
        return value
    if index < len(call.args) and not any(isinstance(a, ast.Starred) for a in call.args[: index + 1]):
        return call.args[index]
    return None


def is_param(node: ast.AST, name: Optional[str] = None) -> bool:
    return isinstance(node, ast.Name) and node.id.startswith(PARAM) and (
        name is None or node.id == PARAM + name
    )


VIEW_ATTRS = {"T", "real", "imag", "values", "coefficients", "exponents", "keys", "names",
              "indeterminants", "shape", "dtype", "flat", "size", "ndim", "allocation", "_dtype"}
VIEW_METHODS = {"ravel", "reshape", "transpose", "flatten", "copy", "astype", "view", "squeeze",
                "swapaxes", "tonumpy", "item", "tolist", "isconstant"}
WRAPPERS = {
    "numpoly.construct.aspolynomial.aspolynomial",
    "numpoly.construct.polynomial.polynomial",
    "numpy.asarray", "numpy.array", "numpy.asanyarray", "numpy.ascontiguousarray",
}


def source_params(ctx: Ctx, module: Module, expr: ast.AST) -> List[str]:
    """Which parameters an operand *is* (positionally through align calls, views,
    wrappers, element-of).  Returns [] when the expression is not a plain
    derivation of parameters."""
    if is_param(expr):
        return [expr.id[1:]]
    if isinstance(expr, ast.Attribute):
        return source_params(ctx, module, expr.value)
    if isinstance(expr, ast.Starred):
        return source_params(ctx, module, expr.value)
    if isinstance(expr, ast.Subscript):
        inner = expr.value
        if isinstance(inner, ast.Call) and not is_S(inner):
            name = ctx.dotted(module, inner.func)
            if name in ALIGN_FUNCS and isinstance(expr.slice, ast.Constant) and isinstance(expr.slice.value, int):
                idx = expr.slice.value
                if idx < len(inner.args) and not any(isinstance(a, ast.Starred) for a in inner.args):
                    return source_params(ctx, module, inner.args[idx])
                if len(inner.args) == 1 and isinstance(inner.args[0], ast.Starred):
                    # align(*inputs)[i] -> element i of inputs
                    src = source_params(ctx, module, inner.args[0].value)
                    return [f"{p}[{idx}]" for p in src]
                return []
        return source_params(ctx, module, inner)
    if is_S(expr) and expr.func.id[1:] in ("elem", "rest", "value"):
        return source_params(ctx, module, expr.args[0])
    if isinstance(expr, ast.Call) and not is_S(expr):
        name = ctx.dotted(module, expr.func)
        if name in WRAPPERS and expr.args:
            return source_params(ctx, module, expr.args[0])
        if name in ALIGN_FUNCS:
            out: List[str] = []
            for arg in expr.args:
                out.extend(source_params(ctx, module, arg))
            return out
        if isinstance(expr.func, ast.Attribute) and expr.func.attr in VIEW_METHODS and name is None:
            return source_params(ctx, module, expr.func.value)
    if isinstance(expr, (ast.Tuple, ast.List)):
        out = []
        for elt in expr.elts:
            out.extend(source_params(ctx, module, elt))
        return out
    return []


def mentions(expr: ast.AST, needle: str) -> bool:
    return needle in U(expr)


def func_label(module: Module, func: ast.AST) -> str:
    return getattr(func, "_qualname", getattr(func, "name", "?"))


def step_exprs(step):
    """The expression trees evaluated at a path step (original, un-expanded nodes)."""
    if step.kind in ("stmt", "return", "raise"):
        return [step.node]
    if step.kind == "assume":
        return [step.node]
    if step.kind == "iter" and isinstance(step.node, (ast.For, ast.AsyncFor)):
        return [step.node.iter]
    if step.kind == "with":
        return [step.node.context_expr]
    return []


def step_calls(step):
    for expr in step_exprs(step):
        yield from calls_in(expr)


_COMPS = (ast.ListComp, ast.GeneratorExp, ast.SetComp, ast.DictComp)


def expand_in_context(step, raw: ast.AST, node: ast.AST) -> ast.AST:
    """``step.expand(node)`` for a node inside ``raw`` - but when node sits inside a comprehension of raw, the
    comprehension variables are bound too (to Σelem(iterable) etc.) by expanding the outermost enclosing
    comprehension and walking down to the node's position in the expanded copy."""
    parents = {}
    for parent in ast.walk(raw):
        for field, value in ast.iter_fields(parent):
            if isinstance(value, ast.AST):
                parents[id(value)] = (parent, field, None)
            elif isinstance(value, list):
                for idx, item in enumerate(value):
                    if isinstance(item, ast.AST):
                        parents[id(item)] = (parent, field, idx)
    chain = []
    cur = node
    outer = None
    while id(cur) in parents:
        parent, field, idx = parents[id(cur)]
        chain.append((field, idx))
        cur = parent
        if isinstance(cur, _COMPS):
            outer = (cur, len(chain))
    if outer is None:
        return step.expand(node)
    comp, depth = outer
    expanded = step.expand(comp)
    cur = expanded
    for field, idx in reversed(chain[:depth]):
        cur = getattr(cur, field, None)
        if idx is not None and isinstance(cur, list):
            cur = cur[idx] if idx < len(cur) else None
        if cur is None:
            return step.expand(node)
    if type(cur) is not type(node):
        # a comprehension variable is replaced by its provenance (Σelem(...), Σindex(...), a projected element)
        if isinstance(node, ast.Name) and isinstance(cur, ast.AST):
            return cur
        return step.expand(node)
    return cur
