"""R-OPS - operator and method forwards of ndpoly (C05 third sentence, C08).

Every dunder or ndarray-method override of ``ndpoly`` must forward to the
numpoly function the Python data model / the property statement names, with
operands in the right order and every named parameter forwarded under its own
keyword.
"""
from __future__ import annotations

import ast
from typing import Dict, List, Optional, Tuple

from .. import AnalysisError
from ..paths import U
from ..report import Finding, RuleResult
from .common import is_param

# method -> (public numpoly function, positional arguments as parameter names)
# 'self' first for the forward form, second for the reflected form.
TABLE: Dict[str, Tuple[str, List[str]]] = {
    "__eq__": ("equal", ["self", "other"]),
    "__ne__": ("not_equal", ["self", "other"]),
    "__truediv__": ("poly_divide", ["self", "value"]),
    "__div__": ("poly_divide", ["self", "value"]),
    "__rtruediv__": ("poly_divide", ["value", "self"]),
    "__rdiv__": ("poly_divide", ["value", "self"]),
    "__mod__": ("poly_remainder", ["self", "value"]),
    "__rmod__": ("poly_remainder", ["value", "self"]),
    "__divmod__": ("poly_divmod", ["self", "value"]),
    "__rdivmod__": ("poly_divmod", ["value", "self"]),
    "__call__": ("call", ["self", "args", "kwargs"]),
    "__repr__": ("array_repr", ["self"]),
    "__str__": ("array_str", ["self"]),
    "max": ("amax", ["self"]),
    "min": ("amin", ["self"]),
    "mean": ("mean", ["self"]),
    "round": ("around", ["self"]),
    "diagonal": ("diagonal", ["self"]),
    "isconstant": ("isconstant", ["self"]),
    "tonumpy": ("tonumpy", ["self"]),
}
# arithmetic dunders that, *if* overridden, must reach the function registered for the ufunc
ARITH = {
    "__add__": ("numpy.add", False), "__radd__": ("numpy.add", True),
    "__sub__": ("numpy.subtract", False), "__rsub__": ("numpy.subtract", True),
    "__mul__": ("numpy.multiply", False), "__rmul__": ("numpy.multiply", True),
    "__pow__": ("numpy.power", False), "__rpow__": ("numpy.power", True),
    "__floordiv__": ("numpy.floor_divide", False), "__rfloordiv__": ("numpy.floor_divide", True),
    "__matmul__": ("numpy.matmul", False), "__rmatmul__": ("numpy.matmul", True),
    "__neg__": ("numpy.negative", False), "__pos__": ("numpy.positive", False),
    "__abs__": ("numpy.absolute", False),
    "__lt__": ("numpy.less", False), "__le__": ("numpy.less_equal", False),
    "__gt__": ("numpy.greater", False), "__ge__": ("numpy.greater_equal", False),
}


def _params(func: ast.FunctionDef) -> List[str]:
    args = func.args
    return [a.arg for a in args.posonlyargs + args.args + args.kwonlyargs]


def _check_forward(ctx, result, module, cls, func, target_public, positional, target_def=None):
    qual = f"{cls.name}.{func.name}"
    where = module.loc(func)
    paths = ctx.paths(module, func)
    returns = [p for p in paths if p[-1].kind == "return"]
    if len(returns) != len(paths) or not returns:
        result.ob(f"{qual} returns on every path", False, where, "")
        result.add(Finding("R-OPS", module, qual, func, "method does not return a forward on every path",
                           construct=f"def {func.name}"))
        return
    if target_def is None:
        binding = ctx.res.public(target_public)
        if binding.kind != "def":
            raise AnalysisError(f"numpoly.{target_public} (target of {qual}) is missing")
        target_def = binding.node
    for path in returns:
        last = path[-1]
        value = last.expand(last.node.value) if last.node.value is not None else None
        ident = f"{qual} -> numpoly.{target_public}({', '.join(positional)})"
        if not isinstance(value, ast.Call):
            result.ob(ident, False, where, f"returns {U(value) if value is not None else None}")
            result.add(Finding("R-OPS", module, qual, last.node,
                               f"{func.name} must forward to numpoly.{target_public}"))
            continue
        callee = ctx.res.resolve_expr(module, value.func)
        if callee.kind != "def" or callee.node is not target_def:
            got = ctx.res.binding_name(callee) or U(value.func)
            result.ob(ident, False, where, f"forwards to {got}")
            result.add(Finding("R-OPS", module, qual, last.node,
                               f"{func.name} forwards to {got}, expected numpoly.{target_public}"))
            continue
        # positional operands in order
        problems = []
        got_pos = [a for a in value.args]
        kws = {kw.arg: kw.value for kw in value.keywords if kw.arg is not None}
        target_params = [a.arg for a in target_def.args.posonlyargs + target_def.args.args]
        for idx, pname in enumerate(positional):
            # the operand bound to the target's idx-th parameter, positionally or by that parameter's name
            if idx < len(got_pos):
                operand = got_pos[idx]
            elif idx < len(target_params) and target_params[idx] in kws:
                operand = kws.pop(target_params[idx])
            else:
                operand = None
            if operand is None or not is_param(operand, pname):
                got = U(operand) if operand is not None else "<missing>"
                problems.append(f"operand {idx} is {got}, expected {pname}")
        if len(got_pos) > len(positional):
            problems.append(f"{len(got_pos) - len(positional)} extra positional arguments")
        # every other named parameter forwarded under its own keyword
        named = [p for p in _params(func) if p not in positional]
        for pname in named:
            if pname not in kws:
                problems.append(f"parameter '{pname}' is not forwarded")
            elif not is_param(kws[pname], pname):
                problems.append(f"keyword {pname}= receives {U(kws[pname])}")
        for kw_name, kw_value in kws.items():
            if kw_name not in named and is_param(kw_value):
                problems.append(f"parameter {U(kw_value)} forwarded as {kw_name}=")
        if func.args.kwarg is not None and func.args.kwarg.arg not in positional:
            if not any(kw.arg is None and is_param(kw.value, func.args.kwarg.arg) for kw in value.keywords):
                problems.append(f"**{func.args.kwarg.arg} is not forwarded")
        if func.args.vararg is not None and func.args.vararg.arg not in positional:
            if not any(isinstance(a, ast.Starred) and is_param(a.value, func.args.vararg.arg) for a in value.args):
                problems.append(f"*{func.args.vararg.arg} is not forwarded")
        result.ob(ident, not problems, where, "; ".join(problems))
        if problems:
            result.add(Finding("R-OPS", module, qual, last.node,
                               f"{func.name} -> numpoly.{target_public}: " + "; ".join(problems)))


def _check_component(ctx, result, modname, fname, index):
    module = ctx.repo.module(modname)
    func = ctx.repo.function(modname, fname)
    divmod_def = ctx.res.lookup("numpoly.poly_function.divide.divmod.poly_divmod")
    if divmod_def.kind != "def":
        raise AnalysisError("anchor poly_divmod is missing")
    params = _params(func)[:2]
    for path in ctx.paths(module, func):
        last = path[-1]
        ident = f"{fname} returns component {index} of poly_divmod({', '.join(params)})"
        ok, why = False, ""
        if last.kind == "return" and last.node.value is not None:
            value = last.expand(last.node.value)
            if (
                isinstance(value, ast.Subscript)
                and isinstance(value.slice, ast.Constant)
                and isinstance(value.value, ast.Call)
            ):
                call = value.value
                callee = ctx.res.resolve_expr(module, call.func)
                if callee.kind == "def" and callee.node is divmod_def.node:
                    order_ok = (
                        len(call.args) >= 2 and is_param(call.args[0], params[0]) and is_param(call.args[1], params[1])
                    )
                    if value.slice.value != index:
                        why = f"returns component {value.slice.value}"
                    elif not order_ok:
                        why = f"operands are ({', '.join(U(a) for a in call.args[:2])})"
                    else:
                        ok = True
                else:
                    why = f"not derived from poly_divmod: {U(value)[:80]}"
            else:
                why = f"returns {U(value)[:80]}"
        else:
            why = "no return value"
        result.ob(ident, ok, module.loc(func), why)
        if not ok:
            result.add(Finding("R-OPS", module, fname, last.node, f"{ident}: {why}"))


def run(ctx) -> RuleResult:
    result = RuleResult(
        "R-OPS",
        "operator dunders and ndarray-method overrides of ndpoly forward to the documented "
        "numpoly function with operands in order and all named parameters under their own keyword",
    )
    module = ctx.repo.module("numpoly.baseclass")
    binding = ctx.res.lookup("numpoly.baseclass.ndpoly")
    if binding.kind != "class":
        raise AnalysisError("anchor class ndpoly is missing")
    cls = binding.node
    defined = {stmt.name: stmt for stmt in cls.body if isinstance(stmt, ast.FunctionDef)}
    for name, (target, positional) in TABLE.items():
        if name not in defined:
            if name in ("__truediv__", "__rtruediv__", "__mod__", "__rmod__", "__divmod__",
                        "__rdivmod__", "__eq__", "__ne__", "__call__"):
                result.ob(f"ndpoly.{name} defined", False, module.loc(cls), "")
                result.add(Finding("R-OPS", module, "ndpoly", cls,
                                   f"ndpoly.{name} is not defined: the operator falls back to "
                                   f"ndarray's behaviour on the raw storage", construct=f"def {name}"))
            continue
        _check_forward(ctx, result, module, cls, defined[name], target, positional)
    for name, (ufunc, reflected) in ARITH.items():
        if name not in defined:
            continue
        impl = ctx.ufunc_impl(ufunc)
        if impl is None:
            raise AnalysisError(f"{name} overridden but {ufunc} has no registered implementation")
        found = ctx.function_node(impl)
        func = defined[name]
        params = _params(func)
        other = params[1] if len(params) > 1 else None
        positional = ["self"] if other is None else ([other, "self"] if reflected else ["self", other])
        _check_forward(ctx, result, module, cls, func, ufunc.split(".")[-1], positional,
                       target_def=found[1] if found else None)
    _check_component(ctx, result, "numpoly.poly_function.divide.divide", "poly_divide", 0)
    _check_component(ctx, result, "numpoly.poly_function.divide.remainder", "poly_remainder", 1)
    result.floor = 18
    return result
