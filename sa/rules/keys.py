"""R-KEYS - allocation typestate: ``numpoly.ndpoly(exponents=E, ...)`` returns
uninitialised memory; on every path every key of the new object must be written
(unmasked) before the object escapes.  Also R-CAST (cast before the raw C write).
"""
from __future__ import annotations

import ast
from typing import Dict, List, Optional

from .. import AnalysisError
from ..paths import U, describe_path, is_S, strip_tags, walk_shared
from ..report import Finding, RuleResult
from .common import calls_in, kwarg, step_exprs

NDPOLY = "numpoly.baseclass.ndpoly"
CFROM = "numpoly.cfunctions.cfrom_attributes.cfrom_attributes"
CMUL = "numpoly.cfunctions.cmultiply.cmultiply"
EXCEPTIONS = {
    "numpoly.array_function.ediff1d.ediff1d":
        "slice writes that partition the buffer (every part x every key of that part); parts are aligned first",
    "numpoly.array_function.apply_along_axis.apply_along_axis":
        "mask writes 'ret_val[out == idx] = polynomial.values' partition the buffer by construction of 'out'",
}
DIRECT_RETURN_OK = {
    "numpoly.construct.compose.compose_polynomial_array":
        "returned only under 'not oarrays.size': the array has no element, nothing is uninitialised",
}


def _is_alloc(ctx, module, expr) -> bool:
    return isinstance(expr, ast.Call) and not is_S(expr) and ctx.dotted(module, expr.func) == NDPOLY


def _txt(expr) -> str:
    return U(strip_tags(expr))


class _Alloc:
    def __init__(self, name, expr, step_index, step):
        self.name = name
        self.expr = expr
        self.index = step_index
        self.step = step
        exps = kwarg(expr, "exponents")
        self.exps = exps
        self.source = None  # text of P when exponents=P.exponents
        if isinstance(exps, ast.Attribute) and exps.attr == "exponents":
            self.source = _txt(exps.value)
        self.text = _txt(expr)


class _Alias:
    """Another local name bound to the same allocated object."""

    def __init__(self, alloc, name):
        self.__dict__.update(alloc.__dict__)
        self.name = name
        self.aliases = getattr(alloc, "aliases", {alloc.name})
        self.aliases.add(name)
        alloc.aliases = self.aliases


def _store_key(ctx, module, step, alloc_names):
    """If the step stores (unmasked) into V.values[K] / V[K] return [(V, K expr, masked)]."""
    out = []
    node = step.node
    if step.kind == "stmt" and isinstance(node, (ast.Assign, ast.AugAssign)):
        targets = node.targets if isinstance(node, ast.Assign) else []
        for target in targets:
            if isinstance(target, ast.Subscript):
                base = target.value
                if isinstance(base, ast.Attribute) and base.attr == "values" and isinstance(base.value, ast.Name):
                    base = base.value
                if isinstance(base, ast.Name) and base.id in alloc_names:
                    out.append((base.id, target.slice, False))
    for raw in step_exprs(step):
        for call in calls_in(raw):
            name = ctx.dotted(module, call.func)
            if name == "numpy.ndarray.__setitem__" and len(call.args) >= 3 and isinstance(call.args[0], ast.Name) \
                    and call.args[0].id in alloc_names:
                out.append((call.args[0].id, call.args[1], False))
            out_kw = kwarg(call, "out")
            if out_kw is not None and isinstance(out_kw, ast.Subscript):
                base = out_kw.value
                if isinstance(base, ast.Attribute) and base.attr == "values" and isinstance(base.value, ast.Name):
                    base = base.value
                if isinstance(base, ast.Name) and base.id in alloc_names:
                    where = kwarg(call, "where")
                    masked = where is not None and not (isinstance(where, ast.Constant) and where.value is True)
                    if any(kw.arg is None for kw in call.keywords):
                        masked = True  # **kwargs may carry where=
                    out.append((base.id, out_kw.slice, masked))
    return out


def _uses_whole(step, name, ctx, module) -> Optional[ast.AST]:
    """First use of ``name`` as a whole object (escape): returns the using node."""
    for raw in step_exprs(step):
        for node in ast.walk(raw):
            if isinstance(node, ast.Name) and node.id == name and isinstance(node.ctx, ast.Load):
                parent = getattr(node, "_parent", None)
                # allowed partial uses
                if isinstance(parent, ast.Attribute) and parent.value is node:
                    if parent.attr in ("keys", "shape", "dtype", "names", "size", "ndim", "exponents", "allocation", "fill"):
                        continue
                    if parent.attr == "values":
                        grand = getattr(parent, "_parent", None)
                        if isinstance(grand, ast.Subscript) and grand.value is parent:
                            gg = getattr(grand, "_parent", None)
                            if isinstance(grand.ctx, ast.Store):
                                continue
                            if isinstance(gg, ast.keyword) and gg.arg == "out":
                                continue
                            if isinstance(gg, ast.Subscript) and isinstance(gg.ctx, ast.Store):
                                continue  # V.values[key][idx] = ...
                        if isinstance(grand, ast.Attribute) and grand.attr in ("ravel", "fill"):
                            continue  # V.values.ravel() for a raw writer / V.values.fill(c): judged separately
                    return node
                if isinstance(parent, ast.Subscript) and parent.value is node and isinstance(parent.ctx, ast.Store):
                    continue
                if isinstance(parent, ast.Call) and node in parent.args:
                    fname = ctx.dotted(module, parent.func)
                    if fname == "numpy.ndarray.__setitem__" and parent.args[0] is node:
                        continue
                    if isinstance(parent.func, ast.Name) and parent.func.id == "isinstance":
                        continue
                if isinstance(parent, ast.Compare):
                    ops = parent.ops
                    if all(isinstance(op, (ast.Is, ast.IsNot)) for op in ops):
                        continue
                return node
    return None


def run(ctx) -> RuleResult:
    result = RuleResult(
        "R-KEYS",
        "every numpoly.ndpoly(...) allocation (uninitialised memory) has all keys written, "
        "unmasked, on every path before the object is used as a whole / returned",
    )
    n_sites = 0
    for module, qual, func in ctx.repo.analysed_functions():
        if module.is_pyx or func.name in module.absorbed:
            continue
        fq = f"{module.name}.{qual}"
        local_names = ctx.locals_of(func)
        sites = [c for c in calls_in(func) if ctx.dotted(module, c.func, local_names - {"ndpoly"}) == NDPOLY]
        # only calls that are directly in this function (not in a nested def)
        sites = [c for c in sites if _owner(c) is func]
        if not sites:
            continue
        n_sites += len(sites)
        if fq in EXCEPTIONS:
            result.exception(fq, EXCEPTIONS[fq])
            for site in sites:
                result.ob(f"{fq}: allocation at line {site.lineno} (confirmed exception)", True, module.loc(site),
                          EXCEPTIONS[fq])
            continue
        paths = ctx.paths_auto(module, func)
        verdicts: Dict[int, List] = {}
        for path in paths:
            _check_path(ctx, module, func, fq, qual, path, result, verdicts)
        for site in sites:
            entries = verdicts.get(site.lineno, [])
            bad = [e for e in entries if not e[0]]
            ok = bool(entries) and not bad
            if not entries:
                # allocation never bound/escaped on any path (dead store) - fine
                ok = True
            result.ob(f"{fq}: allocation at line {site.lineno} fully written before escaping "
                      f"({len(entries)} paths)", ok, module.loc(site), "")
    result.info["allocation_sites"] = n_sites
    if n_sites < 8:
        raise AnalysisError(f"R-KEYS: only {n_sites} allocation sites found (confirmed 13)")
    result.floor = 8
    return result


def _owner(node):
    cur = node
    while cur is not None and not isinstance(cur, (ast.FunctionDef, ast.AsyncFunctionDef)):
        cur = getattr(cur, "_parent", None)
    return cur


def _check_path(ctx, module, func, fq, qual, path, result, verdicts):
    allocs: Dict[str, _Alloc] = {}
    done = set()
    for idx, step in enumerate(path):
        # direct return of a fresh allocation
        if step.kind == "return" and step.node.value is not None:
            value = step.node.value
            if _is_alloc(ctx, module, value):
                line = getattr(getattr(value, "_orig", value), "lineno", step.orig.lineno)
                if fq in DIRECT_RETURN_OK:
                    verdicts.setdefault(value.lineno, []).append((True, "exception"))
                    result.exception(fq, DIRECT_RETURN_OK[fq])
                else:
                    verdicts.setdefault(value.lineno, []).append((False, "returned raw"))
                    result.add(Finding("R-KEYS", module, qual, step.node,
                                       "a freshly allocated (uninitialised) ndpoly is returned directly",
                                       derivation=describe_path(path)))
        # escapes of tracked allocations (checked before the step's own effects)
        for name, alloc in list(allocs.items()):
            if name in done:
                continue
            # is the variable still bound to this allocation?
            cur = step.vars.get(name)
            if cur is None or _txt(_strip_values(cur)) != alloc.text:
                done.add(name)  # rebound before escaping: dead store
                continue
            if step.kind == "stmt" and isinstance(step.node, ast.Assign) and isinstance(step.node.value, ast.Name) \
                    and step.node.value.id == name and all(isinstance(t, ast.Name) for t in step.node.targets):
                for t in step.node.targets:  # plain alias (e.g. parameter binding of an inlined helper)
                    allocs.setdefault(t.id, _Alias(alloc, t.id))
                continue
            if step.kind == "stmt" and isinstance(step.node, ast.Assign) and isinstance(step.node.value, ast.Attribute) \
                    and step.node.value.attr == "values" and isinstance(step.node.value.value, ast.Name) \
                    and step.node.value.value.id == name and all(isinstance(t, ast.Name) for t in step.node.targets):
                for t in step.node.targets:  # the structured view of the same buffer held in a local (v = V.values; v[key] = ...)
                    allocs.setdefault(t.id, _Alias(alloc, t.id))
                continue
            use = _uses_whole(step, name, ctx, module)
            # handing V.values.ravel() to a raw writer is judged by _initialised
            if use is not None:
                ok, why = _initialised(ctx, module, path, alloc, idx)
                verdicts.setdefault(alloc.expr.lineno, []).append((ok, why))
                done.add(name)
                if not ok:
                    result.add(Finding(
                        "R-KEYS", module, qual, alloc.expr,
                        f"the buffer allocated by numpoly.ndpoly(...) is used as a whole at line "
                        f"{step.orig.lineno} ({U(step.orig)[:60]}) before every key was written: {why}",
                        derivation=describe_path(path),
                        construct=f"allocation {U(alloc.expr)[:120]}"))
        # new allocations bound at this step
        if step.kind == "stmt" and isinstance(step.node, ast.Assign) and len(step.node.targets) == 1 \
                and isinstance(step.node.targets[0], ast.Name):
            value = step.node.value
            inner = value.value if isinstance(value, ast.Attribute) and value.attr == "values" else value
            if _is_alloc(ctx, module, inner):
                expanded = step.expand(inner)
                name = step.node.targets[0].id
                allocs[name] = _Alloc(name, expanded, idx, step)
                allocs[name].expr.lineno = inner.lineno
                done.discard(name)
    # allocations that never escaped on this path: nothing to report


def _strip_values(expr):
    if isinstance(expr, ast.Attribute) and expr.attr == "values":
        return expr.value
    return expr


def _initialised(ctx, module, path, alloc: _Alloc, upto: int):
    """Are all keys of the allocation written between its creation and step ``upto``?"""
    name = alloc.name
    names = set(getattr(alloc, "aliases", {name}))
    loops: Dict[int, dict] = {}
    stores = []
    raw_writer = None
    whole_fill = False
    for idx in range(0, upto):
        step = path[idx]
        if step.kind == "iter" and isinstance(step.node, ast.For):
            info = loops.setdefault(id(step.node), {"iters": [], "exit": None, "iter_text": None})
            info["iter_text"] = _index_loop_over(_txt(step.expand(step.node.iter)), alloc)
            info["exit"] = None
            info["iters"].append({"index": idx, "stored": False})
        elif step.kind == "loopexit" and id(step.node) in loops:
            loops[id(step.node)]["exit"] = step.data
            loops[id(step.node)]["exit_index"] = idx
        elif step.kind == "loopexit" and isinstance(step.node, ast.For):
            loops[id(step.node)] = {"iters": [], "exit": step.data,
                                    "iter_text": _index_loop_over(_txt(step.expand(step.node.iter)), alloc)}
        if idx <= alloc.index:
            continue
        for var, key, masked in _store_key(ctx, module, step, names):
            if masked:
                continue  # a masked write leaves the masked-out positions raw
            key_exp = step.expand(key)
            stores.append((idx, _txt(key_exp)))
            for info in loops.values():
                if info["iters"] and info["exit"] is None and _elem_of(key_exp, info["iter_text"]):
                    info["iters"][-1]["stored"] = True
        # whole-buffer initialisers: V.values.fill(c), V.values[...] = c, V.values[:] = c, V.fill(c)
        node = step.node
        if step.kind == "stmt" and isinstance(node, ast.Assign) and isinstance(node.targets[0], ast.Subscript):
            tgt = node.targets[0]
            base = tgt.value.value if isinstance(tgt.value, ast.Attribute) and tgt.value.attr == "values" else tgt.value
            whole = (isinstance(tgt.slice, ast.Constant) and tgt.slice.value is Ellipsis) or (
                isinstance(tgt.slice, ast.Slice) and tgt.slice.lower is None and tgt.slice.upper is None and tgt.slice.step is None)
            if whole and isinstance(base, ast.Name) and base.id in names:
                whole_fill = True
        if step.kind == "stmt" and isinstance(node, ast.Expr) and isinstance(node.value, ast.Call) \
                and isinstance(node.value.func, ast.Attribute) and node.value.func.attr == "fill":
            recv = node.value.func.value
            base = recv.value if isinstance(recv, ast.Attribute) and recv.attr == "values" else recv
            if isinstance(base, ast.Name) and base.id in names:
                whole_fill = True
        for raw in step_exprs(step):
            for call in calls_in(raw):
                cname = ctx.dotted(module, call.func)
                if cname in (CFROM, CMUL) and call.args:
                    dest = call.args[-1]
                    if names & {n.id for n in ast.walk(dest) if isinstance(n, ast.Name)}:
                        raw_writer = (cname, step, call)
    if whole_fill:
        return True, "the whole structured buffer is filled at once"
    if raw_writer is not None:
        cname, step, call = raw_writer
        if cname == CFROM:
            coeffs = _txt(step.expand(call.args[0]))
            for node, pol in step.fact_items():
                tested = _txt(node)
                if pol is True and (tested == coeffs or tested in coeffs):
                    return True, "cfrom_attributes writes every field (coefficient list known non-empty)"
            return False, "cfrom_attributes is reached with a possibly empty coefficient list"
        e1, e2 = _txt(step.expand(call.args[0])), _txt(step.expand(call.args[1]))
        exps = _txt(alloc.exps) if alloc.exps is not None else ""
        if e1 in exps and e2 in exps and "numpy.unique(" in exps:
            return True, "cmultiply writes every pairwise exponent sum (allocation = unique of the same sums)"
        return False, "cmultiply's operands are not the ones the key set was computed from"
    for info in loops.values():
        base = _keys_base(info["iter_text"] or "")
        if base is None:
            continue
        source, sliced = base
        if source != alloc.text and not (alloc.source is not None and source == alloc.source):
            continue
        iters = info["iters"]
        if info.get("exit_index") is not None and info["exit_index"] < alloc.index:
            continue  # this loop over the keys ran to completion before the buffer existed (an earlier pass)
        if iters and iters[0]["index"] < alloc.index:
            nxt = iters[1]["index"] if len(iters) > 1 else upto
            if not alloc.index < nxt:
                continue  # allocated in a later iteration: earlier keys were never written
        if info["exit"] is None or info["exit"] == "break":
            continue
        if not all(it["stored"] for it in iters):
            return False, f"an iteration of the loop over {info['iter_text'][:60]} does not store into the new buffer"
        if sliced is None:
            return True, f"loop over all keys of {source[:50]} stores every key"
        if sliced == "1:":
            if any(ktext == f"{source}.keys[0]" for _, ktext in stores):
                return True, "first key stored, loop over keys[1:] stores the rest"
            return False, "loop over keys[1:] without a store of keys[0]"
        return False, f"the loop iterates only the slice keys[{sliced}]"
    if not stores:
        return False, "no key is written"
    return False, "no loop over the complete key set of the allocation writes the buffer"


def _index_loop_over(iter_text: str, alloc) -> str:
    """``range(len(X))`` is an index loop over all of X.  When X is the key tuple of the new buffer, or the exponent
    matrix the buffer was allocated from (one key per row), the loop visits every key position: it is reported as a
    loop over ``<alloc>.keys`` (the stores are then matched by position, see _elem_of)."""
    import re as _re

    m = _re.match(r"^range\((\d+), len\((.*)\)\)$", iter_text)
    if m and m.group(2).endswith(".keys"):
        return f"{m.group(2)}[{m.group(1)}:]"  # tail index loop over keys[k:]
    if iter_text.startswith("range(len(") and iter_text.endswith("))"):
        over = iter_text[len("range(len("):-2]
        if over.endswith(".keys"):
            return over
        exps = _txt(alloc.exps) if getattr(alloc, "exps", None) is not None else None
        if exps is not None and over == exps:
            return f"{alloc.text}.keys"
    return iter_text


def _elem_of(key_exp, iter_text: str) -> bool:
    """key is the loop variable of the loop over ``iter_text`` (directly or via zip)."""
    # keys[idx] inside 'for idx in range(len(<rows the buffer was allocated from>))': the key at the loop's position
    if isinstance(key_exp, ast.Subscript) and is_S(key_exp.slice, "index") and _txt(key_exp.value).endswith(".keys") \
            and iter_text.endswith(".keys"):
        return True
    if is_S(key_exp) and key_exp.func.id[1:] == "elem":
        inner = _txt(key_exp.args[0])
        if inner == iter_text:
            return True
        # zip(a, X.keys): the loop target bound to X.keys
        if iter_text.startswith("zip(") and inner in iter_text:
            return True
    return False


def _keys_base(it_text: str):
    """'X.keys' -> (X, None); 'X.keys[1:]' -> (X, '1:'); 'zip(..., X.keys)' -> (X, None)."""
    text = it_text
    if text.startswith("zip(") and text.endswith(")"):
        inner = text[4:-1]
        parts = [p.strip() for p in _split_top(inner)]
        for part in parts:
            found = _keys_base(part)
            if found:
                return found
        return None
    if text.endswith(".keys"):
        return text[: -len(".keys")], None
    if "].keys[" in text or ".keys[" in text:
        head, _, tail = text.rpartition(".keys[")
        if tail.endswith("]"):
            return head, tail[:-1]
    return None


def _split_top(text: str):
    depth = 0
    cur = ""
    for ch in text:
        if ch in "([{":
            depth += 1
        elif ch in ")]}":
            depth -= 1
        if ch == "," and depth == 0:
            yield cur
            cur = ""
        else:
            cur += ch
    if cur.strip():
        yield cur


# ---------------------------------------------------------------------------
# R-CAST


def run_cast(ctx) -> RuleResult:
    result = RuleResult(
        "R-CAST",
        "at the construction choke point every coefficient array handed to the raw C writer has "
        "been cast to the dtype of the allocated buffer, and the writer is only used for dtypes it implements",
    )
    modname = "numpoly.construct.from_attributes"
    module = ctx.repo.module(modname)
    func = ctx.repo.function(modname, "polynomial_from_attributes")
    n = 0
    for path in ctx.paths_auto(module, func):
        for step in path:
            for raw in step_exprs(step):
                for call in calls_in(raw):
                    if ctx.dotted(module, call.func) != CFROM:
                        continue
                    n += 1
                    trace = describe_path(path)
                    coeffs = step.expand(call.args[0])
                    dest = step.expand(call.args[1])
                    text = _txt(coeffs)
                    # the destination's dtype expression
                    buf = None
                    for node in walk_shared(dest):
                        if _is_alloc(ctx, module, node):
                            buf = node
                    cast_ok = False
                    if buf is not None:
                        want = [_txt(buf) + ".dtype"]
                        dt = kwarg(buf, "dtype")
                        if dt is not None:
                            want.append(_txt(dt))
                        for node in walk_shared(coeffs):
                            if isinstance(node, ast.Call) and isinstance(node.func, ast.Attribute) and node.func.attr == "astype" and node.args:
                                if _txt(node.args[0]) in want:
                                    cast_ok = True
                            if isinstance(node, ast.Call) and not is_S(node) and ctx.dotted(module, node.func) in ("numpy.asarray", "numpy.array"):
                                dt2 = kwarg(node, "dtype")
                                if dt2 is not None and _txt(dt2) in want:
                                    cast_ok = True
                        # the cast must be applied to every element (comprehension over the list)
                        if cast_ok and not isinstance(coeffs, (ast.ListComp, ast.List)):
                            cast_ok = isinstance(coeffs, ast.Call) and "astype" in text
                    # the cast also makes the array the writer's own: astype(copy=False) / asarray hand the caller's buffer
                    # through when the dtype already matches - the C writers take writable, contiguous memoryviews
                    borrowed = None
                    if cast_ok:
                        for node in walk_shared(coeffs):
                            if isinstance(node, ast.Call) and isinstance(node.func, ast.Attribute) and node.func.attr == "astype":
                                cp = kwarg(node, "copy")
                                if cp is not None and isinstance(cp, ast.Constant) and cp.value is False:
                                    borrowed = "astype(..., copy=False)"
                            if isinstance(node, ast.Call) and not is_S(node) and ctx.dotted(module, node.func) in (
                                    "numpy.array", "numpy.asarray"):
                                cp = kwarg(node, "copy")
                                if cp is not None and isinstance(cp, ast.Constant) and cp.value in (False, None):
                                    borrowed = "copy=False"
                    if borrowed:
                        result.ob(f"the cast in front of cfrom_attributes yields an array of its own [{' / '.join(trace)}]", False,
                                  module.loc(step.orig), borrowed)
                        result.add(Finding(
                            "R-CAST", module, "polynomial_from_attributes", call,
                            f"the cast in front of the raw C writer is spelled {borrowed}: when the dtype already matches, the "
                            f"caller's own array is handed to the writer, whose typed memoryviews need a writable buffer - a "
                            f"read-only coefficient array of a C-implemented dtype (frombuffer, broadcast_to, setflags(write=False)) "
                            f"makes every construction and alignment raise",
                            derivation=trace, construct="cfrom_attributes: cast without copy"))
                    result.ob(f"cfrom_attributes receives coefficients cast to the buffer dtype [{' / '.join(trace)}]",
                              cast_ok, module.loc(step.orig), text[:120])
                    if not cast_ok:
                        result.add(Finding(
                            "R-CAST", module, "polynomial_from_attributes", call,
                            "coefficients reach the raw C writer without (on this path) a cast to the dtype of "
                            "the allocated buffer: the writer reinterprets bytes by the source dtype",
                            derivation=trace))
                    # dtype guard: the path must have established that the buffer dtype is implemented
                    guard = False
                    weak = None
                    for node, pol in step.fact_items():
                        if pol is True and isinstance(node, ast.Compare) and isinstance(node.ops[0], ast.In) \
                                and ".dtype" in _txt(node.left):
                            # the tested object must be the dtype itself: dtype.type / .kind / .char / .name ignore
                            # byte order (and more), the C writers compare the full dtype
                            if isinstance(node.left, ast.Attribute) and node.left.attr in ("type", "kind", "char", "name", "str", "itemsize"):
                                weak = _txt(node.left)
                            else:
                                guard = True
                    if not guard and weak is not None:
                        result.ob(f"cfrom_attributes only for dtypes the C writers implement [{' / '.join(trace)}]",
                                  False, module.loc(step.orig), weak)
                        result.add(Finding(
                            "R-CAST", module, "polynomial_from_attributes", call,
                            f"the membership test in front of the raw C writer looks at '{weak[:60]}', not at the dtype itself: "
                            f"dtypes that differ only in byte order (or anything else .{weak.rsplit('.', 1)[-1]} ignores) pass "
                            f"the test, match no arm of the C writer and are silently not written",
                            derivation=trace, construct="cfrom_attributes: weak dtype guard"))
                        continue
                    result.ob(f"cfrom_attributes only for dtypes the C writers implement [{' / '.join(trace)}]",
                              guard, module.loc(step.orig), "")
                    if not guard:
                        result.add(Finding(
                            "R-CAST", module, "polynomial_from_attributes", call,
                            "the raw C writer is used without a membership test of the buffer dtype in the "
                            "set of dtypes it implements (other dtypes are silently not written)",
                            derivation=trace, construct="cfrom_attributes without dtype guard"))
    if n == 0:
        raise AnalysisError("polynomial_from_attributes no longer calls cfrom_attributes")
    # the guard set must be a subset of the arms the C layer really has
    binding = ctx.res.lookup("numpoly.construct.from_attributes.CVALUES_DTYPES")
    if binding.kind == "assign" and isinstance(binding.node.value, (ast.Tuple, ast.List)):
        from .pyx import _dtype_arms, DTYPE_ALIASES

        cmod = ctx.repo.module("numpoly.cfunctions.cvalues")
        arms, _, _ = _dtype_arms(ctx.repo.function(cmod.name, "cset_values"))
        handled = {d for d, _, _ in arms}
        for elt in binding.node.value.elts:
            name = elt.attr if isinstance(elt, ast.Attribute) else U(elt)
            name = DTYPE_ALIASES.get(name, name)
            ok = name in handled
            result.ob(f"CVALUES_DTYPES entry {name} has an arm in cset_values", ok, module.loc(elt), "")
            if not ok:
                result.add(Finding("R-CAST", module, "<module>", elt,
                                   f"CVALUES_DTYPES lists {name} but cset_values has no arm for it"))
    result.floor = 2
    return result
