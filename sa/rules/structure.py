"""R-LEAD (leading-term siblings), R-GRAD (gradient/hessian structure), R-ALIGNFN
(alignment functions return their inputs' images in argument order)."""
from __future__ import annotations

import ast
from typing import List

from .. import AnalysisError
from ..paths import U, describe_path, is_S, strip_tags, walk_shared
from ..report import Finding, RuleResult
from .common import calls_in, is_param, kwarg, source_params, step_exprs

GLEXSORT = "numpoly.utils.glexsort.glexsort"


def _txt(expr) -> str:
    return U(strip_tags(expr))


def run_lead(ctx) -> RuleResult:
    result = RuleResult(
        "R-LEAD",
        "lead_exponent / lead_coefficient: zero-initialised result, ascending glexsort(graded, reverse) "
        "walk over all terms, overwrite exactly where the term's coefficient is non-zero",
    )
    for name in ("lead_exponent", "lead_coefficient"):
        modname = f"numpoly.poly_function.{name}"
        module = ctx.repo.module(modname)
        func = ctx.repo.function(modname, name)
        params = [a.arg for a in func.args.args]
        analysed = 0
        for path in ctx.paths(module, func, max_iter=1):
            loop_step = None
            for idx, step in enumerate(path):
                if step.kind == "iter" and isinstance(step.node, ast.For):
                    loop_step = (idx, step)
                    break
            if loop_step is None:
                continue
            analysed += 1
            idx0, step = loop_step
            loop = step.node
            it = step.expand(loop.iter)
            direct = isinstance(it, ast.Call) and not is_S(it) and ctx.dotted(module, it.func) == GLEXSORT
            result.ob(f"{name}: ascending glexsort walk", direct, module.loc(loop), _txt(it)[:90])
            if not direct:
                result.add(Finding("R-LEAD", module, name, loop.iter,
                                   f"terms are visited in {_txt(it)[:90]}, not in ascending glexsort order: the "
                                   f"last overwrite is no longer the leading term"))
            else:
                arg0 = it.args[0]
                ok = params[0] in source_params(ctx, module, arg0) and ".exponents" in _txt(arg0)
                result.ob(f"{name}: order computed from the polynomial's own exponents", ok, module.loc(loop), "")
                if not ok:
                    result.add(Finding("R-LEAD", module, name, loop.iter, "glexsort is not applied to poly.exponents"))
                for kw_name in ("graded", "reverse"):
                    value = kwarg(it, kw_name)
                    ok = value is not None and is_param(value, kw_name)
                    result.ob(f"{name}: {kw_name}= forwarded to glexsort", ok, module.loc(loop), "")
                    if not ok:
                        result.add(Finding("R-LEAD", module, name, loop.iter,
                                           f"{kw_name}= of glexsort is {_txt(value) if value is not None else 'missing'}"))
            brk = any(isinstance(n, (ast.Break, ast.Return)) for s in loop.body for n in ast.walk(s))
            result.ob(f"{name}: every term is visited", not brk, module.loc(loop), "")
            if brk:
                result.add(Finding("R-LEAD", module, name, loop, "the walk stops early", construct=f"{name}: break"))
            store = None
            for later in path[idx0 + 1:]:
                if later.kind in ("iter", "loopexit"):
                    break
                if later.kind == "stmt" and isinstance(later.node, ast.Assign) and isinstance(later.node.targets[0], ast.Subscript):
                    store = later
            if store is None:
                raise AnalysisError(f"{name}: no masked store in the walk")
            mask = store.expand(store.node.targets[0].slice)
            ok = (
                isinstance(mask, ast.Compare) and len(mask.ops) == 1 and isinstance(mask.ops[0], ast.NotEq)
                and isinstance(mask.comparators[0], ast.Constant) and mask.comparators[0].value == 0
                and ".coefficients" in _txt(mask.left)
            )
            if not ok:
                mtext = _txt(mask)
                alt = (".astype(bool)" in mtext or "numpy.not_equal(" in mtext or "numpy.asarray(" in mtext and "bool" in mtext) \
                    and ".coefficients" in mtext
                known_wrong = isinstance(mask, ast.Compare) and len(mask.ops) == 1 and not isinstance(mask.ops[0], ast.NotEq)
                # a tolerance test is not 'non-zero': a tiny leading coefficient would be skipped
                known_wrong = known_wrong or any(t in mtext for t in ("numpy.isclose(", "numpy.allclose(", "numpy.abs(", "abs("))
                if alt:
                    ok = True
                elif not known_wrong:
                    raise AnalysisError(f"{name}: unrecognised overwrite mask {mtext[:80]}")
            result.ob(f"{name}: overwrite exactly where the coefficient is non-zero", ok, module.loc(store.orig), _txt(mask)[:80])
            if not ok:
                result.add(Finding("R-LEAD", module, name, store.node,
                                   f"the overwrite mask is {_txt(mask)[:80]}, expected '<coefficients>[idx] != 0'"))
            target = store.node.targets[0].value
            init = step.vars.get(target.id) if isinstance(target, ast.Name) else None
            ok = isinstance(init, ast.Call) and (ctx.dotted(module, init.func) or "") == "numpy.zeros"
            result.ob(f"{name}: result starts from zeros", ok, module.loc(func), _txt(init)[:60] if init is not None else "")
            if not ok:
                result.add(Finding("R-LEAD", module, name, store.node,
                                   "the result is not zero-initialised (the zero polynomial must give zeros)",
                                   construct=f"{name}: init"))
            break
        if analysed == 0:
            raise AnalysisError(f"{name}: glexsort walk not recognised")
    _proxy_ranks(ctx, result)
    result.floor = 10
    return result


def _proxy_ranks(ctx, result):
    """sortable_proxy: coefficient values enter the integer proxy only as ranks (inside numpy.argsort)."""
    modname = "numpoly.poly_function.sortable_proxy"
    module = ctx.repo.module(modname)
    func = ctx.repo.function(modname, "sortable_proxy")

    def raw_coefficient(node, under_sort=False):
        """First coefficient-valued sub-expression that is not inside an argsort/rank call, or None."""
        if isinstance(node, ast.Call) and not is_S(node):
            name = ctx.dotted(module, node.func) or ""
            attr = node.func.attr if isinstance(node.func, ast.Attribute) else ""
            if name in ("numpy.argsort", "numpy.lexsort", "scipy.stats.rankdata", "numpy.searchsorted") or (
                    not name and attr == "argsort"):
                return None
        if isinstance(node, ast.Attribute) and node.attr in ("coefficients", "values") and not (
                isinstance(getattr(node, "_p", None), ast.Call)):
            return node
        for child in ast.iter_child_nodes(node):
            if isinstance(child, ast.Constant):
                continue
            found = raw_coefficient(child)
            if found is not None:
                return found
        return None

    n = 0
    seen = set()
    for path in ctx.paths(module, func, max_iter=1):
        for step in path:
            if step.kind != "stmt" or not isinstance(step.node, ast.Assign) or id(step.node) in seen:
                continue
            target = step.node.targets[0]
            if not isinstance(target, ast.Subscript):
                continue
            seen.add(id(step.node))
            value = step.expand(step.node.value)
            n += 1
            bad = raw_coefficient(value)
            result.ob("sortable_proxy: coefficient values enter the integer proxy only as ranks (argsort)", bad is None,
                      module.loc(step.orig), _txt(value)[:100])
            if bad is not None:
                result.add(Finding(
                    "R-LEAD", module, "sortable_proxy", step.node,
                    f"'{U(step.node)[:70]}' writes coefficient values themselves into the integer proxy: float coefficients are "
                    f"truncated (0.2, 0.7 and 0.5 all become 0), so elements closer than 1 are ranked arbitrarily",
                    construct="sortable_proxy: raw coefficients in the proxy"))
    if n == 0:
        raise AnalysisError("sortable_proxy: no store into the proxy recognised")
    # the value returned is a permutation of 0..size-1: ranks by the double-argsort idiom over the flattened proxy
    m = 0
    for path in ctx.paths(module, func, max_iter=1):
        last = path[-1]
        if last.kind != "return" or last.node.value is None:
            continue
        value = strip_tags(last.expand(last.node.value))
        m += 1
        core = value
        if isinstance(core, ast.Call) and isinstance(core.func, ast.Attribute) and core.func.attr in ("reshape", "astype"):
            core = core.func.value
        elif isinstance(core, ast.Call) and (ctx.dotted(module, core.func) or "") == "numpy.reshape" and core.args:
            core = core.args[0]

        def argsort_of(node):
            if isinstance(node, ast.Call) and (ctx.dotted(module, node.func) or "") == "numpy.argsort" and node.args:
                return node.args[0]
            if isinstance(node, ast.Call) and isinstance(node.func, ast.Attribute) and node.func.attr == "argsort":
                return node.func.value
            return None

        inner = argsort_of(core)
        double = inner is not None and argsort_of(inner) is not None
        dense = any(isinstance(c, ast.Call) and (ctx.dotted(module, c.func) or "") in ("numpy.unique", "scipy.stats.rankdata")
                    for c in ast.walk(value)) and not double
        result.ob("sortable_proxy returns a permutation: ranks by argsort(argsort(flat proxy))", double, module.loc(last.orig),
                  _txt(value)[:60])
        if double:
            continue
        if dense:
            result.add(Finding(
                "R-LEAD", module, "sortable_proxy", last.node,
                "the returned ranks come from numpy.unique(..., return_inverse=True) / rankdata: equal proxy values share "
                "one rank, so the result is not a permutation of 0..size-1 whenever two elements tie (e.g. several "
                "identically-zero elements); argmax/argmin/amax/amin and sort rely on distinct ranks",
                derivation=describe_path(path), construct="sortable_proxy: dense ranks instead of a permutation"))
        else:
            raise AnalysisError(f"sortable_proxy: the returned value is not the double-argsort rank idiom: {_txt(value)[:100]}")
    if m == 0:
        raise AnalysisError("sortable_proxy: no return path")


def run_grad(ctx) -> RuleResult:
    result = RuleResult(
        "R-GRAD",
        "gradient stacks derivative(poly, name) over all poly.names in order on a new leading axis; "
        "hessian is gradient of gradient",
    )
    modname = "numpoly.poly_function.derivative"
    module = ctx.repo.module(modname)
    gfunc = ctx.repo.function(modname, "gradient")
    hfunc = ctx.repo.function(modname, "hessian")
    dfunc = ctx.repo.function(modname, "derivative")
    for path in ctx.paths(module, gfunc):
        last = path[-1]
        if last.kind != "return":
            continue
        value = last.expand(last.node.value)
        ok_call = isinstance(value, ast.Call) and (ctx.dotted(module, value.func) or "").endswith("concatenate")
        result.ob("gradient: concatenates the partial derivatives", ok_call, module.loc(last.orig), "")
        if not ok_call:
            raise AnalysisError("gradient: unrecognised return")
        axis = kwarg(value, "axis") or (value.args[1] if len(value.args) > 1 else None)
        ok = axis is None or (isinstance(axis, ast.Constant) and axis.value == 0)
        result.ob("gradient: partials stacked along axis 0", ok, module.loc(last.orig), "")
        if not ok:
            result.add(Finding("R-GRAD", module, "gradient", last.node, f"partials are joined along axis {_txt(axis)}"))
        comp = value.args[0]
        raw0 = last.node.value.args[0] if isinstance(last.node.value, ast.Call) and last.node.value.args else None
        # list(...) / tuple(...) around the collection of partials changes nothing
        while isinstance(comp, ast.Call) and isinstance(comp.func, ast.Name) and comp.func.id in ("list", "tuple") \
                and len(comp.args) == 1 and not comp.keywords:
            comp = comp.args[0]
        while isinstance(raw0, ast.Call) and isinstance(raw0.func, ast.Name) and raw0.func.id in ("list", "tuple") \
                and len(raw0.args) == 1 and not raw0.keywords:
            raw0 = raw0.args[0]
        filtered = False
        if isinstance(comp, (ast.ListComp, ast.GeneratorExp)) and len(comp.generators) == 1:
            gen = comp.generators[0]
            it = _txt(gen.iter)
            filtered = bool(gen.ifs)
            elt = comp.elt
        elif isinstance(comp, ast.List) and isinstance(raw0, ast.Name):
            # accumulate form:  polys = []; for name in poly.names: polys.append(derivative(poly, name)[None])
            # (a local list literal grows with what is appended to it; also reached through an inlined generator)
            appended = [call.args[0] for target, call in last.muts.get(raw0.id, ())
                        if isinstance(target, ast.Attribute) and target.attr == "append" and isinstance(call, ast.Call) and call.args]
            if not appended:
                appended = list(comp.elts)
            iters = [s for s in path if s.kind == "iter" and isinstance(s.node, ast.For)]
            if not appended:
                continue  # zero iterations on this path: nothing to look at
            elems = [n for n in walk_shared(appended[0]) if is_S(n, "elem")]
            if not elems:
                raise AnalysisError("gradient: appended partial does not depend on the loop variable")
            it = _txt(elems[0].args[0])
            filtered = len(appended) != len(iters)
            elt = appended[0]
        else:
            raise AnalysisError("gradient: partials are built neither by one comprehension nor by an accumulate loop")
        ok = it.endswith(".names") and "π" + gfunc.args.args[0].arg in it and not filtered
        result.ob("gradient: one partial per indeterminate, in names order", ok, module.loc(last.orig), it)
        if not ok:
            result.add(Finding("R-GRAD", module, "gradient", last.node,
                               f"partials are taken over {it}{' with a filter' if filtered else ''}, not over all poly.names in order"))
        inner = elt.value if isinstance(elt, ast.Subscript) else elt
        ok = isinstance(elt, ast.Subscript) and "newaxis" in _txt(elt.slice) or (isinstance(elt, ast.Subscript) and _txt(elt.slice) == "None")
        result.ob("gradient: each partial gets a new leading axis", bool(ok), module.loc(last.orig), "")
        if not ok:
            result.add(Finding("R-GRAD", module, "gradient", last.node, "partials are not given a new leading axis"))
        callee = ctx.res.resolve_expr(module, inner.func) if isinstance(inner, ast.Call) else None
        ok = callee is not None and callee.kind == "def" and callee.node is dfunc and len(inner.args) == 2 \
            and is_S(inner.args[1], "elem") and gfunc.args.args[0].arg in source_params(ctx, module, inner.args[0])
        result.ob("gradient: element is derivative(poly, name)", bool(ok), module.loc(last.orig), _txt(inner)[:80])
        if not ok:
            result.add(Finding("R-GRAD", module, "gradient", last.node,
                               f"element is {_txt(inner)[:80]}, expected derivative(poly, <name>)"))
    for path in ctx.paths(module, hfunc):
        last = path[-1]
        value = last.expand(last.node.value) if last.kind == "return" else None
        ok = False
        if isinstance(value, ast.Call) and len(value.args) == 1 and isinstance(value.args[0], ast.Call):
            outer = ctx.res.resolve_expr(module, value.func)
            inner = ctx.res.resolve_expr(module, value.args[0].func)
            ok = outer.kind == "def" and outer.node is gfunc and inner.kind == "def" and inner.node is gfunc \
                and is_param(value.args[0].args[0], hfunc.args.args[0].arg)
        result.ob("hessian = gradient(gradient(poly))", ok, module.loc(hfunc), _txt(value)[:60] if value is not None else "")
        if not ok:
            result.add(Finding("R-GRAD", module, "hessian", last.node, "hessian is not gradient(gradient(poly))"))
    result.floor = 5
    return result


def run_alignfn(ctx) -> RuleResult:
    result = RuleResult(
        "R-ALIGNFN",
        "align_shape / align_indeterminants / align_exponents return tuple(list of per-argument images in "
        "argument order): every slot i is only ever replaced by a value computed from element i; the "
        "common names / exponents / shape range over all arguments",
    )
    modname = "numpoly.align"
    module = ctx.repo.module(modname)
    for name in ("align_shape", "align_indeterminants", "align_exponents"):
        func = ctx.repo.function(modname, name)
        vararg = func.args.vararg.arg if func.args.vararg else None
        if vararg is None:
            raise AnalysisError(f"{name} no longer takes *polys")
        n_ret = 0
        for path in ctx.paths_auto(module, func):
            last = path[-1]
            if last.kind != "return":
                continue
            n_ret += 1
            raw = last.node.value
            value = last.expand(raw)
            trace = describe_path(path)
            # return tuple(<order-preserving images of the arguments>)
            ok = isinstance(value, ast.Call) and isinstance(value.func, ast.Name) and value.func.id == "tuple" and len(value.args) == 1
            if not ok:
                result.ob(f"{name}: returns tuple(<list of images>)", False, module.loc(last.orig), _txt(value)[:80])
                result.add(Finding("R-ALIGNFN", module, name, last.node,
                                   f"returns {_txt(value)[:80]} instead of the tuple of per-argument images",
                                   derivation=trace))
                continue
            lst = value.args[0]
            verdict = _ordered_images(ctx, module, lst, vararg)
            if verdict is None and isinstance(lst, (ast.List,)) and isinstance(raw, ast.Call) and raw.args \
                    and isinstance(raw.args[0], ast.Name) and (not lst.elts or last.muts.get(raw.args[0].id)):
                # accumulate form:  out = []; for poly in <ordered>: out.append(f(poly))
                records = last.muts.get(raw.args[0].id, ())
                appended = [rec for rec in records if isinstance(rec[1], ast.Call) and isinstance(rec[1].func, ast.Attribute)
                            and rec[1].func.attr == "append" and rec[1].args]
                has_append_loop = any(
                    isinstance(sub, ast.Call) and isinstance(sub.func, ast.Attribute) and sub.func.attr == "append"
                    and isinstance(sub.func.value, ast.Name) and sub.func.value.id == raw.args[0].id
                    for loop in ast.walk(func) if isinstance(loop, ast.For) for sub in ast.walk(loop))
                if not records and has_append_loop:
                    continue  # the path on which the loop body never ran: nothing to judge
                if appended and len(appended) == len(records):
                    verdict = True
                    for _target, call in appended:
                        elems = [n for n in walk_shared(call.args[0]) if is_S(n, "elem")]
                        sources = {_txt(n.args[0]) for n in elems}
                        ordered = False
                        for n in elems:
                            if _ordered_images(ctx, module, n.args[0], vararg) is True:
                                ordered = True
                        if not ordered:
                            verdict = None
                    # an append under a condition would drop arguments
                    loops = [n for n in ast.walk(func) if isinstance(n, ast.For)]
                    for loop in loops:
                        for sub in ast.walk(loop):
                            if isinstance(sub, ast.Call) and isinstance(sub.func, ast.Attribute) and sub.func.attr == "append" \
                                    and isinstance(sub.func.value, ast.Name) and sub.func.value.id == raw.args[0].id:
                                cur = sub
                                while cur is not loop:
                                    cur = cur._parent
                                    if isinstance(cur, ast.If):
                                        verdict = False
            if verdict is None:
                # path-exact form: the returned list literal has grown by one element per iteration over the ordered
                # arguments (appends through any local name, e.g. the accumulator of an inlined generator)
                core = lst
                while isinstance(core, ast.Call) and isinstance(core.func, ast.Name) and core.func.id in ("list", "tuple") \
                        and len(core.args) == 1:
                    core = core.args[0]
                if isinstance(core, ast.List):
                    iters = [st for st in path if st.kind == "iter" and isinstance(st.node, ast.For)
                             and _ordered_images(ctx, module, st.expand(st.node.iter), vararg) is True]
                    if not core.elts and not iters:
                        continue  # the loop body never ran on this path: nothing to judge
                    if iters:
                        source = _txt(iters[0].expand(iters[0].node.iter))
                        own = [st for st in iters if _txt(st.expand(st.node.iter)) == source]
                        # the element bound by each iteration (its tag identifies the iteration)
                        iter_tags = []
                        for st in own:
                            nxt = path[path.index(st) + 1] if path.index(st) + 1 < len(path) else None
                            bound = nxt.vars.get(st.node.target.id) if nxt is not None and isinstance(st.node.target, ast.Name) else None
                            iter_tags.append(bound.args[1].value if bound is not None and is_S(bound, "elem") and len(bound.args) == 2
                                             and isinstance(bound.args[1], ast.Constant) else None)
                        if None not in iter_tags and len(core.elts) <= len(own):
                            matched = all(
                                any(is_S(n, "elem") and len(n.args) == 2 and isinstance(n.args[1], ast.Constant)
                                    and n.args[1].value == tag for n in walk_shared(elt))
                                for elt, tag in zip(core.elts, iter_tags))
                            if matched:
                                verdict = len(core.elts) == len(own)
            if verdict is None:
                raise AnalysisError(f"{name}: unrecognised construction of the returned list: {_txt(lst)[:100]}")
            result.ob(f"{name}: images listed in argument order [{len(trace)} decisions]", verdict, module.loc(last.orig), _txt(lst)[:80])
            if not verdict:
                result.add(Finding("R-ALIGNFN", module, name, last.node,
                                   f"the returned list is {_txt(lst)[:100]}, not one image per argument in order",
                                   derivation=trace))
            # every slot update L[idx] = value(elem idx)
            var = raw.args[0].id if isinstance(raw, ast.Call) and raw.args and isinstance(raw.args[0], ast.Name) else None
            for target, stored in last.muts.get(var, ()) if var else ():
                if not isinstance(target, ast.Subscript):
                    continue
                index = target.slice
                ok = is_S(index, "index")
                tag = index.args[1].value if ok and len(index.args) > 1 else None
                # the iteration tag identifies one pass of one loop, whatever the iterable is wrapped in (zip, enumerate)
                elem_tags = {n.args[1].value for n in walk_shared(stored)
                             if is_S(n, "elem") and len(n.args) > 1 and isinstance(n.args[1], ast.Constant)} if ok else set()
                ok = ok and tag in elem_tags  # the image of argument i is computed from argument i
                result.ob(f"{name}: slot i is replaced by a value computed from argument i", ok,
                          module.loc(last.orig), _txt(target)[:60])
                if not ok:
                    result.add(Finding("R-ALIGNFN", module, name, last.node,
                                       f"slot {_txt(index)[:40]} of the result list receives a value computed from "
                                       f"another element: results are no longer in argument order",
                                       derivation=trace, construct=f"{name}: slot update"))
        if n_ret == 0:
            raise AnalysisError(f"{name}: no return path")
    # align_exponents rebuilds *every* operand (fresh, C-contiguous constructor results): consumers read
    # ``.values`` of its results, which re-wraps the raw buffer and ignores the strides of a view; the
    # interpreter's OWNDATA pruning relies on the same summary.
    func = ctx.repo.function(modname, "align_exponents")
    n_iter = 0
    for path in ctx.paths_auto(module, func):
        current = None
        for step in path:
            if step.kind == "iter" and isinstance(step.node, ast.For) and _rebuild_loop(step.node):
                if current is not None and not current[1]:
                    _report_skip(result, module, current[0], path)
                current = [step, False]
                n_iter += 1
            elif step.kind == "loopexit" and current is not None and step.node is current[0].node:
                if not current[1]:
                    _report_skip(result, module, current[0], path)
                current = None
            elif current is not None and step.kind == "stmt" and isinstance(step.node, ast.Assign):
                target = step.node.targets[0]
                if isinstance(target, ast.Subscript) and isinstance(step.node.value, ast.Call) \
                        and "from_attributes" in U(step.node.value.func):
                    current[1] = True
            elif current is not None and step.kind == "stmt" and isinstance(step.node, ast.Expr) \
                    and isinstance(step.node.value, ast.Call) and isinstance(step.node.value.func, ast.Attribute) \
                    and step.node.value.func.attr == "append" and step.node.value.args \
                    and isinstance(step.node.value.args[0], ast.Call) and "from_attributes" in U(step.node.value.args[0].func):
                current[1] = True
    result.ob("align_exponents rebuilds every operand on every path", not any(
        f.construct == "align_exponents: operand not rebuilt" for f in result.findings), module.loc(func), f"{n_iter} iterations examined")
    if n_iter == 0:
        # comprehension form: every element of the returned tuple is an unconditional constructor call
        fresh = False
        for path in ctx.paths_auto(module, func):
            last = path[-1]
            if last.kind == "return" and last.node.value is not None:
                value = last.expand(last.node.value)
                for node in walk_shared(value):
                    if isinstance(node, (ast.ListComp, ast.GeneratorExp)) and isinstance(node.elt, ast.Call) \
                            and "from_attributes" in U(node.elt.func):
                        fresh = True
        if not fresh:
            raise AnalysisError("align_exponents: rebuild loop not recognised")
        result.ob("align_exponents rebuilds every operand (comprehension of constructor calls)", True, module.loc(func), "")
    # the union ranges over all arguments
    checks = (
        ("align_exponents", "numpy.vstack", "exponents"),
        ("align_shape", "numpy.broadcast_shapes", "shape"),
    )
    for name, callee, attr in checks:
        func = ctx.repo.function(modname, name)
        found = False
        for call in calls_in(func):
            if ctx.dotted(module, call.func) == callee and call.args:
                arg = call.args[0].value if isinstance(call.args[0], ast.Starred) else call.args[0]
                if isinstance(arg, (ast.ListComp, ast.GeneratorExp)):
                    found = True
                    gen = arg.generators[0]
                    ok = not gen.ifs and isinstance(gen.iter, ast.Name) and U(arg.elt).endswith("." + attr)
                    result.ob(f"{name}: common {attr} computed over all arguments", ok, module.loc(call), U(arg))
                    if not ok:
                        result.add(Finding("R-ALIGNFN", module, name, call,
                                           f"the common {attr} is computed from {U(arg)[:80]}, not from every argument"))
        if not found:
            raise AnalysisError(f"{name}: {callee}([... for poly in polys_]) not recognised")
    func = ctx.repo.function(modname, "align_indeterminants")
    sets = [n for n in ast.walk(func) if isinstance(n, ast.SetComp)]
    unions = [c for c in calls_in(func) if isinstance(c.func, ast.Attribute) and c.func.attr == "union"
              and c.args and isinstance(c.args[0], ast.Starred)]
    if sets:
        gens = sets[0].generators
        sliced = any(isinstance(g.iter, ast.Subscript) for g in gens)
        ok = len(gens) == 2 and not any(g.ifs for g in gens) and not sliced
        where_union = sets[0]
    elif unions:
        inner = unions[0].args[0].value
        ok = isinstance(inner, (ast.GeneratorExp, ast.ListComp)) and len(inner.generators) == 1 \
            and not inner.generators[0].ifs and not isinstance(inner.generators[0].iter, ast.Subscript)
        where_union = unions[0]
    else:
        raise AnalysisError("align_indeterminants: how the common name set is built was not recognised")
    result.ob("align_indeterminants: common names are the union over all arguments", ok, module.loc(func), "")
    if not ok:
        result.add(Finding("R-ALIGNFN", module, "align_indeterminants", where_union,
                           "the common name set is not the union of the names of all arguments",
                           construct="common_names"))
    # numeric-suffix order of the common names
    sorts = [c for c in calls_in(func) if isinstance(c.func, ast.Name) and c.func.id == "sorted"]
    sorts += [c for c in calls_in(func) if isinstance(c.func, ast.Attribute) and c.func.attr == "sort" and not c.args]
    if not sorts:
        raise AnalysisError("align_indeterminants: no sorted(...) of the common names found")

    def _int_key(key):
        """True: key maps a name to int(...); False: known string-like order; None: unknown."""
        if key is None:
            return False
        if isinstance(key, ast.Lambda):
            body = key.body
            if isinstance(body, ast.Call) and isinstance(body.func, ast.Name) and body.func.id == "int":
                return True
            if isinstance(body, ast.Tuple) and body.elts and isinstance(body.elts[0], ast.Call) \
                    and isinstance(body.elts[0].func, ast.Name) and body.elts[0].func.id == "int":
                return True
            return False
        if isinstance(key, ast.Call) and U(key.func) in ("functools.partial", "partial") and key.args:
            return _int_key(key.args[0])  # partial(f, ...): f decides
        if isinstance(key, ast.Name):
            if key.id in ("str", "len", "repr"):
                return False
            defs = [n for n in ast.walk(module.tree) if isinstance(n, ast.FunctionDef) and n.name == key.id]
            if len(defs) == 1:
                returns = [r.value for r in ast.walk(defs[0]) if isinstance(r, ast.Return)]
                if returns and all(isinstance(v, ast.Call) and isinstance(v.func, ast.Name) and v.func.id == "int" for v in returns):
                    return True
                return None
        return None

    verdicts = [_int_key(kwarg(call, "key")) for call in sorts]
    if any(v is None for v in verdicts) and not any(v is True for v in verdicts):
        raise AnalysisError("align_indeterminants: sort key of the common names not recognised")
    ok = any(v is True for v in verdicts)
    result.ob("align_indeterminants: names ordered by their integer index", ok, module.loc(func), "")
    if not ok:
        result.add(Finding("R-ALIGNFN", module, "align_indeterminants", sorts[0] if sorts else func,
                           "the common names are not sorted by int(<suffix>): q10 sorts before q2 (string order) "
                           "and the 'index order' of the statement is lost", construct="common_names sort key"))
    # align_shape rebuilds exactly the operands whose shape differs from the common shape
    func = ctx.repo.function(modname, "align_shape")
    tests = [n.test for n in ast.walk(func) if isinstance(n, (ast.If, ast.IfExp))]
    shape_tests = [t for t in tests if isinstance(t, ast.Compare) and len(t.ops) == 1
                   and any(isinstance(x, ast.Attribute) and x.attr in ("shape", "ndim", "size") for x in [t.left, t.comparators[0]])]
    if len(shape_tests) != 1:
        raise AnalysisError("align_shape: rebuild guard not recognised")
    test = shape_tests[0]
    def _is_shape(node):
        if isinstance(node, ast.Attribute) and node.attr == "shape":
            return True
        if isinstance(node, ast.Call) and "broadcast_shapes" in U(node.func):
            return True
        if isinstance(node, ast.Name):  # a local holding the common shape
            values = [n.value for n in ast.walk(func) if isinstance(n, ast.Assign) and len(n.targets) == 1
                      and isinstance(n.targets[0], ast.Name) and n.targets[0].id == node.id]
            return bool(values) and all(_is_shape(v) for v in values)
        return False

    ok = isinstance(test.ops[0], (ast.NotEq, ast.Eq)) and _is_shape(test.left) and _is_shape(test.comparators[0]) \
        and any(isinstance(x, ast.Attribute) and x.attr == "shape" for x in (test.left, test.comparators[0]))
    result.ob("align_shape broadcasts every operand whose shape differs from the common shape", ok, module.loc(test), U(test))
    if not ok:
        result.add(Finding("R-ALIGNFN", module, "align_shape", test,
                           f"the rebuild guard is '{U(test)}', not a comparison of '<operand>.shape' with '<common>.shape': an "
                           f"operand of the common rank but with a length-1 axis is not broadcast", construct="align_shape: guard"))
    # the rebuilt coefficients are numpy broadcasts of the operand's coefficients
    n_bc = 0
    seen_bc = set()
    for path in ctx.paths_auto(module, func):
        for step in path:
            for raw in step_exprs(step):
                for call in calls_in(raw):
                    if not (isinstance(call.func, ast.Attribute) and call.func.attr == "from_attributes") or id(call) in seen_bc:
                        continue
                    coefs = kwarg(call, "coefficients") or (call.args[1] if len(call.args) > 1 else None)
                    if coefs is None:
                        continue
                    seen_bc.add(id(call))
                    expanded = step.expand(coefs)
                    elts = _element_exprs(expanded, step, coefs)
                    if not elts:
                        raise AnalysisError(f"align_shape: how the coefficients are rebuilt was not recognised: {_txt(expanded)[:80]}")
                    for elt in elts:
                        verdict, why = _broadcast_form(ctx, module, elt)
                        if verdict is None:
                            raise AnalysisError(f"align_shape: coefficient image {_txt(elt)[:80]} is not a recognised broadcast idiom")
                        n_bc += 1
                        result.ob("align_shape: coefficients are broadcast (numpy rules) to the common shape", verdict,
                                  module.loc(step.orig), _txt(elt)[:100])
                        if not verdict:
                            result.add(Finding(
                                "R-ALIGNFN", module, "align_shape", call,
                                f"the coefficients are brought to the common shape with {why}, which repeats/refills the "
                                f"flattened data instead of broadcasting: right shape, wrong elements whenever a "
                                f"non-leading length-1 axis is stretched", construct="align_shape: broadcast"))
    if n_bc == 0:
        raise AnalysisError("align_shape: no rebuilt coefficients found")
    # align_polynomials = align_exponents(*align_shape(*polys))
    func = ctx.repo.function(modname, "align_polynomials")
    for path in ctx.paths(module, func):
        last = path[-1]
        value = last.expand(last.node.value) if last.kind == "return" else None
        text = _txt(value) if value is not None else ""
        ok = value is not None and "align_exponents(*" in text and "align_shape(*π" in text
        result.ob("align_polynomials = align_exponents(*align_shape(*polys))", ok, module.loc(func), text[:80])
        if not ok:
            result.add(Finding("R-ALIGNFN", module, "align_polynomials", last.node,
                               f"align_polynomials returns {text[:80]}"))
    result.floor = 10
    return result


def _element_exprs(expanded, step, raw):
    """Element expression(s) of a coefficient collection: comprehension element, literal elements, or the
    values appended to a local accumulate list."""
    node = expanded
    while isinstance(node, ast.Call) and isinstance(node.func, ast.Name) and node.func.id in ("tuple", "list") and node.args:
        node = node.args[0]
    if isinstance(node, (ast.GeneratorExp, ast.ListComp)):
        return [node.elt]
    if isinstance(node, (ast.List, ast.Tuple)) and node.elts:
        return list(node.elts)
    if isinstance(node, (ast.List, ast.Tuple)) and isinstance(raw, ast.Name):
        out = []
        for target, call in step.muts.get(raw.id, ()):
            if isinstance(target, ast.Attribute) and target.attr == "append" and isinstance(call, ast.Call) and call.args:
                out.append(call.args[0])
        return out
    return []


_NOT_BROADCAST = {"resize", "tile", "reshape", "repeat"}


def _broadcast_form(ctx, module, elt):
    text = _txt(elt)
    if isinstance(elt, ast.BinOp) and isinstance(elt.op, (ast.Mult, ast.Add)):
        want = "numpy.ones(" if isinstance(elt.op, ast.Mult) else "numpy.zeros("
        for side in (elt.left, elt.right):
            st = _txt(side)
            if want in st and "broadcast_shapes" in st:
                return True, ""
        return None, ""
    if isinstance(elt, ast.Call) and not is_S(elt):
        name = ctx.dotted(module, elt.func) or ""
        short = name.split(".")[-1] if name else (elt.func.attr if isinstance(elt.func, ast.Attribute) else "")
        if name in ("numpy.broadcast_to",) and len(elt.args) + len(elt.keywords) >= 2:
            return True, ""
        if name == "numpy.full" and elt.args:
            return True, ""
        if short in _NOT_BROADCAST and (name.startswith("numpy.") or not name):
            return False, f"'{text[:60]}'"
    return None, ""


def _rebuild_loop(loop: ast.For) -> bool:
    """The loop of align_exponents that rebuilds the operands (index-assignment or append form)."""
    if "enumerate(" in U(loop.iter):
        return True
    return any(isinstance(n, ast.Call) and isinstance(n.func, ast.Attribute) and n.func.attr == "append"
               and n.args and isinstance(n.args[0], ast.Call) and "from_attributes" in U(n.args[0].func)
               for n in ast.walk(loop))


def _ordered_images(ctx, module, expr, vararg):
    """True: one image per argument in argument order; False: known reordering; None: unrecognised."""
    if is_param(expr, vararg):
        return True
    if isinstance(expr, ast.Call) and isinstance(expr.func, ast.Name) and expr.func.id in ("list", "tuple") and len(expr.args) == 1:
        return _ordered_images(ctx, module, expr.args[0], vararg)
    if isinstance(expr, ast.Call) and isinstance(expr.func, ast.Name) and expr.func.id in ("reversed", "sorted", "set", "frozenset"):
        return False
    if isinstance(expr, ast.Subscript) and isinstance(expr.slice, ast.Slice):
        sl = expr.slice
        if sl.lower is None and sl.upper is None and sl.step is None:
            return _ordered_images(ctx, module, expr.value, vararg)
        return False  # a reversed / partial slice
    if isinstance(expr, ast.Call) and not is_S(expr) and (ctx.dotted(module, expr.func) or "").startswith("numpoly.align.align_") \
            and len(expr.args) == 1 and isinstance(expr.args[0], ast.Starred):
        return _ordered_images(ctx, module, expr.args[0].value, vararg)
    if isinstance(expr, (ast.ListComp, ast.GeneratorExp)) and len(expr.generators) == 1:
        gen = expr.generators[0]
        if gen.ifs:
            return False  # filtering drops arguments
        inner = _ordered_images(ctx, module, gen.iter, vararg)
        if inner is not True:
            return inner
        # the element must be computed from the element of this generator
        own = any(is_S(n, "elem") and _txt(n.args[0]) == _txt(gen.iter) for n in walk_shared(expr.elt))
        return True if own else None
    return None


def _report_skip(result, module, iter_step, path):
    result.add(Finding(
        "R-ALIGNFN", module, "align_exponents", iter_step.node,
        "an iteration of the rebuild loop leaves the operand as it is (no from_attributes): align_exponents "
        "may then return the caller's object or a strided view, whose '.values' re-wraps the raw buffer ignoring "
        "strides - consumers combine elements at the wrong positions", derivation=describe_path(path),
        construct="align_exponents: operand not rebuilt"))


def _strip_call(expr):
    """numpoly.aspolynomial(x) -> x"""
    if isinstance(expr, ast.Call) and not is_S(expr) and expr.args:
        return expr.args[0]
    return expr
