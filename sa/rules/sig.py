"""R-SIG / R-SIG-INT - every call binds against the signature of its callee.

A call that cannot bind raises TypeError on *every* execution, so every public
function that reaches it is broken for all inputs.
"""
from __future__ import annotations

import ast
from typing import Optional

from .. import numpyfacts
from ..report import Finding, RuleResult
from .common import func_label


def _internal_problem(call: ast.Call, target: ast.FunctionDef, skip_first: bool, label: str) -> Optional[str]:
    args = target.args
    positional = list(args.posonlyargs) + list(args.args)
    posonly = {a.arg for a in args.posonlyargs}
    if skip_first and positional:
        positional = positional[1:]
    kwonly = list(args.kwonlyargs)
    n_defaults = len(args.defaults)
    required_pos = positional[: len(positional) - n_defaults] if n_defaults else positional
    # defaults belong to the *last* positional params, also counting a skipped first
    star_args = any(isinstance(a, ast.Starred) for a in call.args)
    star_kwargs = any(k.arg is None for k in call.keywords)
    npos = len(call.args)
    if not star_args and args.vararg is None and npos > len(positional):
        return f"{npos} positional arguments, {label} accepts {len(positional)}"
    names = {a.arg for a in positional} | {a.arg for a in kwonly}
    given = set()
    for kw in call.keywords:
        if kw.arg is None:
            continue
        given.add(kw.arg)
        if kw.arg in posonly:
            return f"positional-only parameter '{kw.arg}' passed by keyword to {label}"
        if kw.arg not in names and args.kwarg is None:
            return f"unexpected keyword '{kw.arg}' for {label}"
    if not star_args:
        for param in positional[:npos]:
            if param.arg in given:
                return f"multiple values for '{param.arg}' in call of {label}"
    if not star_args and not star_kwargs:
        for idx, param in enumerate(required_pos):
            if idx >= npos and param.arg not in given:
                return f"missing required argument '{param.arg}' for {label}"
        for param, default in zip(kwonly, args.kw_defaults):
            if default is None and param.arg not in given:
                return f"missing required keyword '{param.arg}' for {label}"
    return None


def run(ctx) -> RuleResult:
    result = RuleResult(
        "R-SIG",
        "every call into numpy binds against the installed numpy's signature; every resolved "
        "call of a numpoly function binds against its def",
    )
    n_numpy = n_internal = 0
    for module, qual, func in ctx.repo.all_functions():
        local_names = ctx.locals_of(func)
        for node in ast.walk(func):
            if not isinstance(node, ast.Call):
                continue
            # skip calls that belong to a nested function (they are visited with it)
            owner = node
            while owner is not None and not isinstance(owner, (ast.FunctionDef, ast.AsyncFunctionDef)):
                owner = getattr(owner, "_parent", None)
            if owner is not func:
                continue
            name = ctx.callee(module, node, local_names)
            if name is None:
                continue
            where = module.loc(node)
            if name.startswith("numpy.") and module.is_pyx:
                continue  # 'np' in a .pyx is also the cimported C API
            if name.startswith("numpy."):
                if not numpyfacts.exists(name):
                    result.ob(f"{where} {name}", False, where, "no such numpy attribute")
                    result.add(Finding("R-SIG", module, qual, node,
                                       f"{name} does not exist in numpy {numpyfacts.VERSION}"))
                    continue
                n_numpy += 1
                problem = numpyfacts.bind_problem(name, node)
                result.ob(f"{where} {name}", problem is None, where, problem or "")
                if problem:
                    result.add(Finding("R-SIG", module, qual, node,
                                       f"call cannot bind (TypeError on every execution): {problem}"))
            elif name.startswith("numpoly."):
                binding = ctx.res.lookup(name)
                target = None
                skip_first = False
                if binding.kind == "def":
                    target = binding.node
                    parent = getattr(target, "_parent", None)
                    if isinstance(parent, ast.ClassDef):
                        is_static = any(
                            isinstance(d, ast.Name) and d.id == "staticmethod" for d in target.decorator_list
                        )
                        skip_first = not is_static
                        is_class = any(
                            isinstance(d, ast.Name) and d.id == "classmethod" for d in target.decorator_list
                        )
                        # Class.method(obj, ...) passes self explicitly (a classmethod always receives cls implicitly)
                        if skip_first and not is_class and isinstance(node.func, ast.Attribute):
                            chain = ctx.res.chain(node.func)
                            if chain and len(chain) >= 2 and chain[-2] == parent.name:
                                skip_first = False
                elif binding.kind == "class":
                    for stmt in binding.node.body:
                        if isinstance(stmt, ast.FunctionDef) and stmt.name in ("__new__", "__init__"):
                            target, skip_first = stmt, True
                            break
                if target is None:
                    continue
                n_internal += 1
                problem = _internal_problem(node, target, skip_first, name)
                result.ob(f"{where} {name}", problem is None, where, problem or "")
                if problem:
                    result.add(Finding("R-SIG", module, qual, node,
                                       f"call cannot bind (TypeError on every execution): {problem}"))
    result.info["numpy_call_sites"] = n_numpy
    result.info["internal_call_sites"] = n_internal
    result.info["numpy_version"] = numpyfacts.VERSION
    result.floor = 150
    return result
