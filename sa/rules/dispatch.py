"""R-DISPATCH - the two protocol methods of ndpoly are closed (C08 negative half).

Every path through ``__array_ufunc__`` / ``__array_function__`` either forwards
the received arguments unchanged to ``<registry>[key]`` with a key that was
positively looked up, or raises ``FeatureNotSupported``.
"""
from __future__ import annotations

import ast
from typing import Optional

from .. import AnalysisError
from ..paths import PARAM, U, describe_path, is_S
from ..report import Finding, RuleResult
from .common import is_param

REGISTRIES = {
    "numpoly.dispatch.UFUNC_COLLECTION": "ufunc",
    "numpoly.dispatch.FUNCTION_COLLECTION": "function",
}
MAPPINGS = {
    "numpoly.baseclass.REDUCE_MAPPINGS": "reduce",
    "numpoly.baseclass.ACCUMULATE_MAPPINGS": "accumulate",
}
FNS = "numpoly.baseclass.FeatureNotSupported"


def _table(ctx, module, expr) -> Optional[str]:
    name = ctx.dotted(module, expr)
    if name in REGISTRIES or name in MAPPINGS:
        return name
    return None


def _membership_known(ctx, module, step, key_expr, table_expr) -> bool:
    """The path has established ``key in table`` (in any spelling of the table)."""
    want_table = ctx.dotted(module, table_expr)
    want_key = U(key_expr)
    for node, polarity in step.fact_items():
        if (
            polarity is True
            and isinstance(node, ast.Compare)
            and len(node.ops) == 1
            and isinstance(node.ops[0], ast.In)
            and U(node.left) == want_key
            and ctx.dotted(module, node.comparators[0]) == want_table
        ):
            return True
    return False


def _method_case(step, method_param):
    case = None
    for node, polarity in step.fact_items():
        if (
            polarity is True
            and isinstance(node, ast.Compare)
            and len(node.ops) == 1
            and isinstance(node.ops[0], ast.Eq)
        ):
            left, right = node.left, node.comparators[0]
            if isinstance(left, ast.Constant):
                left, right = right, left
            if is_param(left, method_param) and isinstance(right, ast.Constant):
                case = right.value
    return case


def _check_method(ctx, result, module, cls, name, key_param, fwd_args, fwd_kwargs, method_param):
    func = ctx.repo.function(module.name, f"{cls}.{name}")
    qual = f"{cls}.{name}"
    paths = ctx.paths(module, func, assert_paths=False)
    if not paths:
        raise AnalysisError(f"{qual}: no feasible path")
    n_return = n_raise = 0
    for path in paths:
        last = path[-1]
        trace = describe_path(path)
        # (2) every subscript of a registry / mapping by the incoming callable is guarded
        for step in path:
            if step.kind not in ("stmt", "return"):
                continue
            for sub in ast.walk(step.node):
                if isinstance(sub, ast.Subscript) and isinstance(sub.ctx, ast.Load):
                    table = _table(ctx, module, sub.value)
                    if table is None:
                        continue
                    key = step.expand(sub.slice)
                    guarded = _membership_known(ctx, module, step, key, sub.value)
                    ident = f"{qual}: {U(sub.value)}[{U(key)}] guarded"
                    result.ob(ident, guarded, module.loc(step.orig), " / ".join(trace))
                    if not guarded:
                        result.add(Finding(
                            "R-DISPATCH", module, qual, sub,
                            f"{U(sub.value)}[...] is subscripted without a dominating membership "
                            f"test whose failing edge raises FeatureNotSupported (KeyError leaks)",
                            derivation=trace,
                        ))
                if (
                    isinstance(sub, ast.Call)
                    and isinstance(sub.func, ast.Attribute)
                    and sub.func.attr in ("get", "pop", "setdefault")
                    and _table(ctx, module, sub.func.value)
                ):
                    default = sub.args[1] if len(sub.args) > 1 else None
                    for kw in sub.keywords:
                        if kw.arg == "default":
                            default = kw.value
                    bad = default is not None and not (
                        isinstance(default, ast.Constant) and default.value is None
                    )
                    ident = f"{qual}: {U(sub)} has no non-None default"
                    result.ob(ident, not bad, module.loc(step.orig), "")
                    if bad:
                        result.add(Finding(
                            "R-DISPATCH", module, qual, sub,
                            f"{U(sub.func.value)}.{sub.func.attr} falls back to "
                            f"{U(default)} for an unmapped callable instead of raising "
                            f"FeatureNotSupported",
                            derivation=trace,
                        ))
        if last.kind == "raise":
            n_raise += 1
            exc = last.node.exc if isinstance(last.node, ast.Raise) else None
            target = exc.func if isinstance(exc, ast.Call) else exc
            cls_name = ctx.dotted(module, target) if target is not None else None
            ok = cls_name == FNS
            result.ob(f"{qual}: raise at line {last.orig.lineno} is FeatureNotSupported", ok,
                      module.loc(last.orig), " / ".join(trace))
            if not ok:
                result.add(Finding(
                    "R-DISPATCH", module, qual, last.node,
                    f"unsupported call raises {cls_name or U(exc) if exc else 'a bare raise'} "
                    f"instead of FeatureNotSupported", derivation=trace))
            continue
        if last.kind != "return":
            result.ob(f"{qual}: falls off the end", False, module.loc(func), " / ".join(trace))
            result.add(Finding("R-DISPATCH", module, qual, func,
                               "a path returns None implicitly instead of forwarding or raising",
                               derivation=trace, construct=f"def {name}"))
            continue
        n_return += 1
        value = last.node.value
        expanded = last.expand(value) if value is not None else None
        ok, why = _is_forward(ctx, module, last, expanded, key_param, fwd_args, fwd_kwargs,
                              method_param)
        result.ob(f"{qual}: return at line {last.orig.lineno} forwards", ok,
                  module.loc(last.orig), why + " :: " + " / ".join(trace))
        if not ok:
            result.add(Finding("R-DISPATCH", module, qual, last.node, why, derivation=trace))
    result.info[f"{qual}.paths"] = len(paths)
    result.info[f"{qual}.returns"] = n_return
    result.info[f"{qual}.raises"] = n_raise
    if n_raise == 0:
        result.ob(f"{qual}: has a raising path", False, module.loc(func), "")
        result.add(Finding("R-DISPATCH", module, qual, func,
                           "no path raises FeatureNotSupported: unsupported callables are not rejected",
                           construct=f"def {name}"))


def _get_as_subscript(expr, step):
    """``T.get(k)`` that the path has established to be not None is the entry ``T[k]`` (the .get + None-test spelling of
    a membership guard); rewritten bottom-up so that nested look-ups (UFUNCS.get(REDUCE.get(ufunc))) are covered."""
    import copy

    known = {U(node) for node, pol in step.fact_items()
             if pol is False and isinstance(node, ast.Compare) and len(node.ops) == 1 and isinstance(node.ops[0], ast.Is)
             and isinstance(node.comparators[0], ast.Constant) and node.comparators[0].value is None
             for node in [node.left]}
    if not known:
        return expr

    class T(ast.NodeTransformer):
        def visit_Call(self, node):
            before = U(node)
            self.generic_visit(node)
            if isinstance(node.func, ast.Attribute) and node.func.attr == "get" and len(node.args) == 1 and not node.keywords \
                    and before in known:
                return ast.copy_location(ast.Subscript(value=node.func.value, slice=node.args[0], ctx=ast.Load()), node)
            return node

    return T().visit(copy.deepcopy(expr))


def _is_forward(ctx, module, step, expanded, key_param, fwd_args, fwd_kwargs, method_param):
    ok, why = _is_forward_core(ctx, module, step, expanded, key_param, fwd_args, fwd_kwargs, method_param)
    if not ok and expanded is not None:
        # the .get + None-test spelling of the membership guards
        rewritten = _get_as_subscript(expanded, step)
        if rewritten is not expanded:
            ok2, why2 = _is_forward_core(ctx, module, step, rewritten, key_param, fwd_args, fwd_kwargs, method_param)
            if ok2:
                return ok2, why2
    return ok, why


def _is_forward_core(ctx, module, step, expanded, key_param, fwd_args, fwd_kwargs, method_param):
    if not isinstance(expanded, ast.Call) or is_S(expanded):
        return False, ("protocol method returns " + (U(expanded) if expanded is not None else "None")
                       + " instead of <registry>[callable](*inputs, **kwargs)")
    func = expanded.func
    if not (isinstance(func, ast.Subscript) and ctx.dotted(module, func.value) in REGISTRIES):
        return False, f"protocol method returns {U(expanded)[:120]}, not a registry forward"
    # arguments forwarded unchanged
    args_ok = (
        len(expanded.args) == 1
        and isinstance(expanded.args[0], ast.Starred)
        and is_param(expanded.args[0].value, fwd_args)
    )
    kw_ok = (
        len(expanded.keywords) == 1
        and expanded.keywords[0].arg is None
        and is_param(expanded.keywords[0].value, fwd_kwargs)
    )
    if not (args_ok and kw_ok):
        return False, (f"arguments are not forwarded unchanged: {U(expanded)[:160]} "
                       f"(expected *{fwd_args}, **{fwd_kwargs})")
    key = func.slice
    if method_param is None:
        if not is_param(key, key_param):
            return False, f"dispatch key is {U(key)}, not the incoming '{key_param}'"
        return True, "forwards"
    # ufunc protocol: key provenance must match the method on this path
    case = _method_case(step, method_param)
    if case not in ("reduce", "accumulate", "__call__"):
        case = None
    if case is None:
        # table-driven form:  method in ("reduce", "accumulate")  and  key = TABLE[method][ufunc]
        cases = None
        for node, polarity in step.fact_items():
            if polarity is True and isinstance(node, ast.Compare) and len(node.ops) == 1 and isinstance(node.ops[0], ast.In) \
                    and is_param(node.left, method_param) and isinstance(node.comparators[0], (ast.Tuple, ast.List, ast.Set)) \
                    and all(isinstance(e, ast.Constant) for e in node.comparators[0].elts):
                cases = [e.value for e in node.comparators[0].elts]
        table_expr = None
        if isinstance(key, ast.Subscript) and is_param(key.slice, key_param):
            inner = key.value
            if cases and set(cases) <= {"reduce", "accumulate"} and isinstance(inner, ast.Subscript) \
                    and is_param(inner.slice, method_param):
                table_expr = inner.value
            elif isinstance(inner, ast.Call) and isinstance(inner.func, ast.Attribute) and inner.func.attr == "get" \
                    and len(inner.args) == 1 and not inner.keywords and is_param(inner.args[0], method_param):
                # TABLE.get(method)[ufunc]: every key of the table is a case, any other method yields None
                table_expr = inner.func.value
                cases = None
        if table_expr is not None:
            binding = ctx.res.resolve_expr(module, table_expr)
            table = binding.node.value if binding.kind == "assign" else None
            if isinstance(table, ast.Dict):
                entries = {k.value: ctx.dotted(module, v) for k, v in zip(table.keys, table.values)
                           if isinstance(k, ast.Constant)}
                want = {"reduce": "numpoly.baseclass.REDUCE_MAPPINGS", "accumulate": "numpoly.baseclass.ACCUMULATE_MAPPINGS"}
                if cases is None:
                    cases = sorted(entries)
                    extra = [c for c in cases if c not in want]
                    if extra:
                        return False, f"the method table forwards ufunc method '{extra[0]}', which must raise FeatureNotSupported"
                wrong = [c for c in cases if entries.get(c) != want[c]]
                if wrong:
                    return False, (f"method '{wrong[0]}' is looked up in {entries.get(wrong[0])}, it must use "
                                   f"{want[wrong[0]].split('.')[-1]}")
                return True, f"forwards {'/'.join(cases)} through {U(table_expr)}"
    if case is None:
        return False, ("a forwarding path is not guarded by method == '__call__' / 'reduce' / "
                       "'accumulate' (other ufunc methods must raise FeatureNotSupported)")
    if case == "__call__":
        if not is_param(key, key_param):
            return False, f"method '__call__' dispatches key {U(key)} instead of the incoming ufunc"
        return True, "forwards __call__"
    want = "numpoly.baseclass.REDUCE_MAPPINGS" if case == "reduce" else "numpoly.baseclass.ACCUMULATE_MAPPINGS"
    good = False
    if isinstance(key, ast.Subscript) and ctx.dotted(module, key.value) == want and is_param(key.slice, key_param):
        good = True
    if (
        isinstance(key, ast.Call) and isinstance(key.func, ast.Attribute) and key.func.attr == "get"
        and ctx.dotted(module, key.func.value) == want and key.args and is_param(key.args[0], key_param)
        and len(key.args) == 1 and not key.keywords
        and step.fact(f"{U(key)} is None") is False
    ):
        good = True
    if not good:
        return False, (f"method '{case}' dispatches key {U(key)[:100]}; it must be "
                       f"{want.split('.')[-1]}[{key_param}] (an unmapped ufunc must raise)")
    return True, f"forwards {case}"


def run(ctx) -> RuleResult:
    result = RuleResult(
        "R-DISPATCH",
        "__array_ufunc__/__array_function__: every path forwards (*inputs, **kwargs) to the "
        "registry entry of a positively looked-up key or raises FeatureNotSupported",
    )
    module = ctx.repo.module("numpoly.baseclass")
    _check_method(ctx, result, module, "ndpoly", "__array_ufunc__", "ufunc", "inputs", "kwargs", "method")
    _check_method(ctx, result, module, "ndpoly", "__array_function__", "func", "args", "kwargs", None)
    # class attributes
    binding = ctx.res.lookup("numpoly.baseclass.ndpoly.__array_priority__")
    ok = False
    if binding.kind == "assign":
        value = binding.node.value
        ok = isinstance(value, ast.Constant) and isinstance(value.value, (int, float)) and value.value > 0
    result.ob("ndpoly.__array_priority__ > 0", ok, "numpoly/baseclass.py", "")
    if not ok:
        result.add(Finding("R-DISPATCH", module, "ndpoly", getattr(binding, "node", None),
                           "__array_priority__ missing or not positive: reflected operators "
                           "would be answered by ndarray", construct="__array_priority__"))
    fns = ctx.res.lookup(FNS)
    if fns.kind != "class":
        raise AnalysisError("anchor class FeatureNotSupported is missing")
    result.floor = 8
    return result
