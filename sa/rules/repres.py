"""R-CODEC, R-FINAL, R-REDUCE, R-HEADER - representation agreement rules
(writer/reader tables, encode/decode constants, metadata sets)."""
from __future__ import annotations

import ast
import re
import string
from typing import Dict, List, Optional, Set

from .. import AnalysisError
from ..paths import U, describe_path, strip_tags, walk_shared
from ..report import Finding, RuleResult
from .common import calls_in, is_param, kwarg

KEY_OFFSET = "numpoly.baseclass.ndpoly.KEY_OFFSET"
PFA = "numpoly.construct.from_attributes.polynomial_from_attributes"


def _is_key_offset(ctx, module, node) -> bool:
    if isinstance(node, ast.Attribute) and node.attr == "KEY_OFFSET":
        return True
    if isinstance(node, ast.Name) and node.id == "KEY_OFFSET":
        return True
    return False


def run_codec(ctx) -> RuleResult:
    result = RuleResult(
        "R-CODEC",
        "key <-> exponent conversions use the single constant KEY_OFFSET: '+' where exponents "
        "become keys, '-' where keys (viewed as uint32) become exponents; no literal stands in; "
        "the constant lies above every delimiter of the text header",
    )
    binding = ctx.res.lookup(KEY_OFFSET)
    if binding.kind != "assign" or not isinstance(binding.node.value, ast.Constant) or not isinstance(
        binding.node.value.value, int
    ):
        raise AnalysisError("ndpoly.KEY_OFFSET is not an integer literal")
    offset = binding.node.value.value
    base = binding.module
    ok = offset > ord(":")
    result.ob("KEY_OFFSET > ord(':') (numpy rejects ':' in field names)", ok, base.loc(binding.node), str(offset))
    if not ok:
        result.add(Finding("R-CODEC", base, "ndpoly", binding.node,
                           f"KEY_OFFSET={offset} does not skip ':' (58): exponent {58 - offset} cannot be a field name"))
    # other assignments to KEY_OFFSET anywhere
    for module, qual, func in ctx.repo.all_functions():
        for node in ast.walk(func):
            if isinstance(node, (ast.Assign, ast.AugAssign)):
                targets = node.targets if isinstance(node, ast.Assign) else [node.target]
                for target in targets:
                    if isinstance(target, ast.Attribute) and target.attr == "KEY_OFFSET":
                        result.ob("KEY_OFFSET is never reassigned", False, module.loc(node), "")
                        result.add(Finding("R-CODEC", module, qual, node, "KEY_OFFSET is reassigned at run time"))
    n_enc = n_dec = 0
    for module, qual, func in ctx.repo.all_functions():
        if module.is_pyx:
            continue
        for node in ast.walk(func):
            if isinstance(node, ast.AugAssign) and isinstance(node.op, (ast.Add, ast.Sub)) and _is_key_offset(ctx, module, node.value):
                n_enc += 1
                ok = isinstance(node.op, ast.Add)
                result.ob(f"{module.name}.{qual}: encode site is '<exponents> += KEY_OFFSET'", ok, module.loc(node), U(node))
                if not ok:
                    result.add(Finding("R-CODEC", module, qual, node, "exponents are encoded with '-=' instead of '+'"))
                continue
            if isinstance(node, ast.Call) and ctx.dotted(module, node.func) in ("numpy.subtract", "numpy.add") \
                    and len(node.args) == 2 and not node.keywords:
                # numpy.subtract(a, b) / numpy.add(a, b) spelled as a call: same as the operator
                node2 = ast.BinOp(left=node.args[0], op=ast.Sub() if ctx.dotted(module, node.func) == "numpy.subtract" else ast.Add(),
                                  right=node.args[1])
                ast.copy_location(node2, node)
                node2._parent = getattr(node, "_parent", None)
                node = node2
            if not isinstance(node, ast.BinOp) or not isinstance(node.op, (ast.Add, ast.Sub)):
                continue
            owner = node
            while owner is not None and not isinstance(owner, (ast.FunctionDef, ast.AsyncFunctionDef)):
                owner = getattr(owner, "_parent", None)
            if owner is not func:
                continue
            left_ko, right_ko = _is_key_offset(ctx, module, node.left), _is_key_offset(ctx, module, node.right)
            other = node.right if left_ko else node.left
            other_text = U(other)
            for _ in range(3):  # a named temporary holding the uint32 view
                if isinstance(other, ast.Name):
                    values = [n2.value for n2 in ast.walk(func) if isinstance(n2, ast.Assign) and len(n2.targets) == 1
                              and isinstance(n2.targets[0], ast.Name) and n2.targets[0].id == other.id]
                    if len(values) == 1:
                        other = values[0]
                        other_text += " <- " + U(other)
                    elif values:
                        # re-assigned temporary (view, then further steps): any of its definitions may be the uint32 view
                        other_text += " <- " + " | ".join(U(v) for v in values)
                        break
            decoding = ".view(" in other_text and "uint32" in other_text
            if left_ko or right_ko:
                where = module.loc(node)
                if decoding:
                    n_dec += 1
                    ok = isinstance(node.op, ast.Sub) and right_ko
                    result.ob(f"{module.name}.{qual}: decode site is '<uint32 view> - KEY_OFFSET'", ok, where, U(node))
                    if not ok:
                        result.add(Finding("R-CODEC", module, qual, node,
                                           "keys are decoded with the wrong sign/operand order: exponents = "
                                           "keys.view(uint32) - KEY_OFFSET"))
                else:
                    n_enc += 1
                    ok = isinstance(node.op, ast.Add)
                    result.ob(f"{module.name}.{qual}: encode site is '<exponents> + KEY_OFFSET'", ok, where, U(node))
                    if not ok:
                        result.add(Finding("R-CODEC", module, qual, node,
                                           "exponents are encoded with '-' instead of '+ KEY_OFFSET'"))
            elif decoding and isinstance(node.right, ast.Constant) and isinstance(node.right.value, int):
                n_dec += 1
                result.ob(f"{module.name}.{qual}: decode site uses KEY_OFFSET", False, module.loc(node), U(node))
                result.add(Finding("R-CODEC", module, qual, node,
                                   f"integer literal {node.right.value} stands in for KEY_OFFSET where keys are decoded"))
    # the offset handed to the C multiplier
    mmod = ctx.repo.module("numpoly.array_function.multiply")
    mfunc = ctx.repo.function(mmod.name, "multiply")
    found = False
    for call in calls_in(mfunc):
        if ctx.dotted(mmod, call.func) == "numpoly.cfunctions.cmultiply.cmultiply":
            found = True
            arg = call.args[4] if len(call.args) > 4 else kwarg(call, "offset")
            ok = arg is not None and _is_key_offset(ctx, mmod, arg)
            result.ob("multiply hands KEY_OFFSET to cmultiply", ok, mmod.loc(call), U(arg) if arg is not None else "")
            if not ok:
                result.add(Finding("R-CODEC", mmod, "multiply", call,
                                   "cmultiply does not receive KEY_OFFSET as its key offset"))
    if not found:
        raise AnalysisError("multiply no longer calls cmultiply (anchor changed)")
    # the codec is *only* the offset: no other shift of the code points in the functions that encode / decode (an extra
    # shift at one site has to be mirrored at every other site - ndpoly.exponents, polynomial() for structured input,
    # the C multiplier - and nothing checks that; Engler's sibling rule on the encode/decode family)
    extra = 0
    for module, qual, func in ctx.repo.all_functions():
        if module.is_pyx:
            continue
        text = U(func)
        if "KEY_OFFSET" not in text and ".view(numpy.uint32)" not in text:
            continue
        carriers = set()
        for node in ast.walk(func):
            if isinstance(node, ast.Assign) and len(node.targets) == 1 and isinstance(node.targets[0], ast.Name):
                vtext = U(node.value)
                if "KEY_OFFSET" in vtext or ".view(" in vtext:
                    carriers.add(node.targets[0].id)
        for node in ast.walk(func):
            lit = other = None
            if isinstance(node, ast.AugAssign) and isinstance(node.op, (ast.Add, ast.Sub, ast.BitOr, ast.BitXor, ast.BitAnd,
                                                                        ast.LShift, ast.RShift, ast.Mult, ast.FloorDiv, ast.Mod)):
                lit, other = node.value, node.target
            elif isinstance(node, ast.BinOp) and isinstance(node.op, (ast.Add, ast.Sub, ast.BitOr, ast.BitXor, ast.LShift, ast.RShift)):
                if isinstance(node.right, ast.Constant):
                    lit, other = node.right, node.left
                elif isinstance(node.left, ast.Constant):
                    lit, other = node.left, node.right
            if lit is None or not (isinstance(lit, ast.Constant) and isinstance(lit.value, int) and not isinstance(lit.value, bool)):
                continue
            root = other
            while isinstance(root, (ast.Subscript, ast.Attribute, ast.Call)):
                root = root.func if isinstance(root, ast.Call) else root.value
            otext = U(other)
            on_keys = (isinstance(root, ast.Name) and root.id in carriers) or ".view(numpy.uint32)" in otext
            if not on_keys:
                continue
            extra += 1
            result.ob(f"{module.name}.{qual}: code points are shifted by KEY_OFFSET only", False, module.loc(node), U(node)[:80])
            result.add(Finding(
                "R-CODEC", module, qual, node,
                f"'{U(node)[:80]}' shifts key code points by the literal {lit.value} next to the KEY_OFFSET conversion: the key codec has "
                f"several independent encode / decode sites (ndpoly.__new__, ndpoly.exponents, polynomial() for structured "
                f"arrays, the C multiplier, text headers); a shift applied at one of them and not at all others stores or "
                f"loads a different monomial", construct=f"{qual}: extra code-point shift"))
    if (n_enc < 1 or n_dec < 2) and not extra:
        raise AnalysisError(f"R-CODEC: found {n_enc} encode and {n_dec} decode sites, expected >=1 and >=2")
    result.info.update({"encode_sites": n_enc, "decode_sites": n_dec, "KEY_OFFSET": offset})
    result.floor = 5
    return result


def _attr_stores(func: ast.FunctionDef, receiver: str) -> Dict[str, ast.AST]:
    out = {}
    for node in ast.walk(func):
        if isinstance(node, ast.Assign):
            for target in node.targets:
                if isinstance(target, ast.Attribute) and isinstance(target.value, ast.Name) and target.value.id == receiver:
                    out[target.attr] = node
        if isinstance(node, ast.Call) and isinstance(node.func, ast.Name) and node.func.id == "setattr" and len(node.args) == 3:
            if isinstance(node.args[0], ast.Name) and node.args[0].id == receiver:
                name = node.args[1]
                if isinstance(name, ast.Constant):
                    out[name.value] = node
                elif isinstance(name, ast.Name):
                    loop = node
                    while loop is not None and not (isinstance(loop, ast.For) and isinstance(loop.target, ast.Name) and loop.target.id == name.id):
                        loop = getattr(loop, "_parent", None)
                    seq = loop.iter if loop is not None else None
                    if isinstance(seq, ast.Name):
                        # a module-level constant tuple of attribute names
                        root = func
                        while getattr(root, "_parent", None) is not None:
                            root = root._parent
                        seq_name = seq.id
                        for stmt in getattr(root, "body", []):
                            tgt = stmt.targets[0] if isinstance(stmt, ast.Assign) and len(stmt.targets) == 1 else (
                                stmt.target if isinstance(stmt, ast.AnnAssign) else None)
                            if isinstance(tgt, ast.Name) and tgt.id == seq_name and getattr(stmt, "value", None) is not None:
                                seq = stmt.value
                    if isinstance(seq, (ast.Tuple, ast.List)):
                        for elt in seq.elts:
                            if isinstance(elt, ast.Constant):
                                out[elt.value] = node
                    else:
                        raise AnalysisError("setattr with a non-literal attribute name")
    return out


def run_final(ctx) -> RuleResult:
    result = RuleResult(
        "R-FINAL",
        "the metadata attributes set on a new ndpoly in __new__ are exactly those copied, name for "
        "name, in __array_finalize__ (views, .copy(), copy.copy/deepcopy, .ravel()/.T go through it)",
    )
    module = ctx.repo.module("numpoly.baseclass")
    new = ctx.repo.function(module.name, "ndpoly.__new__")
    fin = ctx.repo.function(module.name, "ndpoly.__array_finalize__")
    returned = [n.value.id for n in ast.walk(new) if isinstance(n, ast.Return) and isinstance(n.value, ast.Name)]
    if not returned:
        raise AnalysisError("__new__ does not return a local object")
    set_new = _attr_stores(new, returned[-1])
    fparams = [a.arg for a in fin.args.args]
    self_name, src_name = fparams[0], fparams[1]
    set_fin = _attr_stores(fin, self_name)
    if len(set_new) < 3:
        raise AnalysisError("__new__: fewer than 3 metadata attributes found")
    for attr in sorted(set(set_new) | set(set_fin)):
        ok = attr in set_new and attr in set_fin
        why = ""
        if ok:
            node = set_fin[attr]
            value = node.value if isinstance(node, ast.Assign) else node.args[2]
            src_attr = None
            if isinstance(value, ast.Call) and isinstance(value.func, ast.Name) and value.func.id == "getattr":
                a1 = value.args[1]
                if isinstance(a1, ast.Constant):
                    src_attr = a1.value
                elif isinstance(a1, ast.Name):
                    src_attr = attr  # loop variable form, same name by construction
                src_ok = isinstance(value.args[0], ast.Name) and value.args[0].id == src_name
            elif isinstance(value, ast.Attribute):
                src_attr = value.attr
                src_ok = isinstance(value.value, ast.Name) and value.value.id == src_name
            else:
                src_ok = False
            ok = src_ok and src_attr == attr
            if not ok:
                why = f"copied from {U(value)}"
        else:
            why = "only in __new__" if attr in set_new else "only in __array_finalize__"
        result.ob(f"metadata '{attr}' set in __new__ and carried over by __array_finalize__", ok,
                  module.loc(fin), why)
        if not ok:
            result.add(Finding(
                "R-FINAL", module, "ndpoly.__array_finalize__", set_fin.get(attr, fin),
                f"metadata attribute '{attr}' is {why}: views and copies of a polynomial get the class "
                f"default instead", construct=f"metadata {attr}"))
    # every path through __array_finalize__ other than 'obj is None' copies all of them
    result.floor = 4
    return result


def run_reduce(ctx) -> RuleResult:
    result = RuleResult(
        "R-REDUCE",
        "__reduce__ returns polynomial_from_attributes and a tuple binding exponents, coefficients, "
        "names, dtype (and allocation) to the right parameters",
    )
    module = ctx.repo.module("numpoly.baseclass")
    func = ctx.repo.function(module.name, "ndpoly.__reduce__")
    target = ctx.function_node(PFA)
    if target is None:
        raise AnalysisError("anchor polynomial_from_attributes is missing")
    tparams = [a.arg for a in target[1].args.args]
    want = {"exponents": "exponents", "coefficients": "coefficients", "names": "names",
            "dtype": "dtype", "allocation": "allocation"}
    alt = {"names": {"names", "indeterminants"}, "dtype": {"dtype", "_dtype"}}
    for path in ctx.paths(module, func):
        last = path[-1]
        if last.kind != "return":
            result.ob("__reduce__ returns", False, module.loc(func), "")
            result.add(Finding("R-REDUCE", module, "ndpoly.__reduce__", func, "__reduce__ does not return"))
            continue
        value = last.expand(last.node.value)
        if not (isinstance(value, ast.Tuple) and len(value.elts) >= 2 and isinstance(value.elts[1], ast.Tuple)):
            raise AnalysisError("__reduce__: unrecognised return shape")
        callee = ctx.res.resolve_expr(module, value.elts[0])
        ok = callee.kind == "def" and callee.node is target[1]
        result.ob("__reduce__ rebuilds through polynomial_from_attributes", ok, module.loc(last.orig), U(value.elts[0]))
        if not ok:
            result.add(Finding("R-REDUCE", module, "ndpoly.__reduce__", last.node,
                               f"__reduce__ rebuilds through {U(value.elts[0])}, not polynomial_from_attributes"))
            continue
        args = value.elts[1].elts
        bound = {tparams[i]: args[i] for i in range(min(len(args), len(tparams)))}
        for extra_idx in range(len(want), min(len(args), len(tparams))):
            pname, arg = tparams[extra_idx], args[extra_idx]
            ok = not (pname == "retain_names" and isinstance(arg, ast.Constant) and arg.value is False)
            ok = ok and pname in ("retain_coefficients", "retain_names")
            result.ob(f"__reduce__: extra positional argument {U(arg)} binds to '{pname}'", ok, module.loc(last.orig), "")
            if not ok:
                result.add(Finding(
                    "R-REDUCE", module, "ndpoly.__reduce__", last.node,
                    f"the trailing positional {U(arg)} of the pickle state binds to parameter '{pname}' of "
                    f"polynomial_from_attributes: unpickling drops the indeterminates that occur in no term",
                    construct=f"__reduce__ extra -> {pname}"))
        for pname, attr in want.items():
            arg = bound.get(pname)
            if arg is None:
                ok = pname == "allocation"
                why = "not supplied"
            else:
                accepted = alt.get(pname, {attr})
                ok = isinstance(arg, ast.Attribute) and arg.attr in accepted and is_param(arg.value, "self")
                why = U(arg)
            result.ob(f"__reduce__: parameter '{pname}' receives self.{attr}", ok, module.loc(last.orig), why)
            if not ok:
                result.add(Finding(
                    "R-REDUCE", module, "ndpoly.__reduce__", last.node,
                    f"pickle state binds parameter '{pname}' of polynomial_from_attributes to {why}, "
                    f"expected self.{attr}", construct=f"__reduce__ {pname} <- {why}"))
    result.floor = 5
    return result


def run_header(ctx) -> RuleResult:
    result = RuleResult(
        "R-HEADER",
        "savetxt/loadtxt: reader regex is built from the writer's template, groups are consumed in "
        "template order, join and split separators agree, each group accepts what the writer can emit "
        "(including the empty shape of 0-d), decoding is strict, the (elements, terms) layout is restored",
    )
    smod = ctx.repo.module("numpoly.array_function.savetxt")
    lmod = ctx.repo.module("numpoly.array_function.loadtxt")
    tmpl_b = ctx.res.lookup("numpoly.array_function.savetxt.HEADER_TEMPLATE")
    if tmpl_b.kind != "assign" or not isinstance(tmpl_b.node.value, ast.Constant):
        raise AnalysisError("HEADER_TEMPLATE is not a string literal")
    template = tmpl_b.node.value.value
    fields = [f for _, f, _, _ in string.Formatter().parse(template) if f]
    literal_chars = set("".join(lit for lit, _, _, _ in string.Formatter().parse(template)))
    regex_b = ctx.res.lookup("numpoly.array_function.loadtxt.HEADER_REGEX")
    if regex_b.kind != "assign":
        raise AnalysisError("HEADER_REGEX is missing")
    fmt_call = None
    for call in calls_in(regex_b.node.value):
        if isinstance(call.func, ast.Attribute) and call.func.attr == "format":
            fmt_call = call
    ok = fmt_call is not None and ctx.dotted(lmod, fmt_call.func.value) == "numpoly.array_function.savetxt.HEADER_TEMPLATE"
    result.ob("HEADER_REGEX is built from HEADER_TEMPLATE", ok, lmod.loc(regex_b.node), "")
    if not ok:
        result.add(Finding("R-HEADER", lmod, "<module>", regex_b.node,
                           "the reader's regex is not derived from the writer's HEADER_TEMPLATE",
                           construct="HEADER_REGEX"))
        result.floor = 1
        return result
    # nothing but the formatted template (and optional anchors / white space) makes up the regex: the text in
    # front of the header on its line is the caller-chosen ``comments`` prefix, which the regex cannot hard-code
    inside = {id(n) for n in ast.walk(fmt_call)}
    for node in ast.walk(regex_b.node.value):
        if isinstance(node, ast.Constant) and isinstance(node.value, str) and id(node) not in inside:
            rest = node.value
            for token in ("^", "$", "\\s*", "\\s+", "\\s", " *", " +", " ", "(?m)", "(?s)"):
                rest = rest.replace(token, "")
            ok_extra = rest == ""
            result.ob("HEADER_REGEX adds no literal text around the template", ok_extra, lmod.loc(node), repr(node.value))
            if not ok_extra:
                result.add(Finding(
                    "R-HEADER", lmod, "<module>", node,
                    f"HEADER_REGEX hard-codes the literal {node.value!r} next to the template: the text around the header "
                    f"(the comment prefix) is chosen by the caller of savetxt/loadtxt (comments=...), so files written with "
                    f"another prefix are recognised as numpoly files but no longer match",
                    construct="HEADER_REGEX: extra literal"))
    fragments: Dict[str, str] = {}
    for kw in fmt_call.keywords:
        if kw.arg and isinstance(kw.value, ast.Constant):
            fragments[kw.arg] = kw.value.value
    missing = [f for f in fields if f not in fragments]
    if missing:
        raise AnalysisError(f"HEADER_REGEX: no fragment for fields {missing}")
    captured = [f for f in fields if re.compile(fragments[f]).groups > 0]
    # writer: what each field is filled with
    sfunc = ctx.repo.function(smod.name, "savetxt")
    wcall = None
    for call in calls_in(sfunc):
        if isinstance(call.func, ast.Attribute) and call.func.attr == "format" and \
                ctx.dotted(smod, call.func.value) == "numpoly.array_function.savetxt.HEADER_TEMPLATE":
            wcall = call
    if wcall is None:
        raise AnalysisError("savetxt no longer formats HEADER_TEMPLATE")
    joins: Dict[str, Optional[str]] = {}
    writer_kw = [(kw.arg, kw.value) for kw in wcall.keywords if kw.arg is not None]
    for kw in wcall.keywords:
        if kw.arg is not None:
            continue
        # HEADER_TEMPLATE.format(**fields): a local dict literal, dict(...) call, or <record>(...)._asdict()
        src = kw.value
        if isinstance(src, ast.Call) and isinstance(src.func, ast.Attribute) and src.func.attr == "_asdict":
            src = src.func.value
        for _ in range(3):
            if isinstance(src, ast.Name):
                values = [n.value for n in ast.walk(sfunc) if isinstance(n, ast.Assign) and len(n.targets) == 1
                          and isinstance(n.targets[0], ast.Name) and n.targets[0].id == src.id]
                src = values[0] if len(values) == 1 else None
        if isinstance(src, ast.Dict) and all(isinstance(k, ast.Constant) for k in src.keys):
            writer_kw += [(k.value, v) for k, v in zip(src.keys, src.values)]
        elif isinstance(src, ast.Call) and isinstance(src.func, ast.Name) and src.keywords and not src.args:
            writer_kw += [(k.arg, k.value) for k in src.keywords if k.arg is not None]
        else:
            raise AnalysisError("savetxt: the mapping passed to HEADER_TEMPLATE.format(**...) was not recognised")
    for kw_name, value in writer_kw:
        kw = ast.keyword(arg=kw_name, value=value)
        sep = None
        if isinstance(value, ast.Call) and isinstance(value.func, ast.Attribute) and value.func.attr == "join" \
                and isinstance(value.func.value, ast.Constant):
            sep = value.func.value.value
        joins[kw.arg] = sep
    # reader: groups[i] -> variable -> use
    lfunc = ctx.repo.function(lmod.name, "loadtxt")
    groups_vars = {
        n.targets[0].id for n in ast.walk(lfunc)
        if isinstance(n, ast.Assign) and isinstance(n.targets[0], ast.Name) and isinstance(n.value, ast.Call)
        and isinstance(n.value.func, ast.Attribute) and n.value.func.attr == "groups"
    }
    group_use: Dict[int, ast.AST] = {}
    splits: Dict[int, Optional[str]] = {}
    # tuple-unpacking form:  names_field, keys_field, shape_field = match.groups()
    for node in ast.walk(lfunc):
        if isinstance(node, ast.Assign) and len(node.targets) == 1 and isinstance(node.targets[0], ast.Tuple) \
                and isinstance(node.value, ast.Call) and isinstance(node.value.func, ast.Attribute) and node.value.func.attr == "groups" \
                and all(isinstance(e, ast.Name) for e in node.targets[0].elts):
            for idx, elt in enumerate(node.targets[0].elts):
                for use in ast.walk(lfunc):
                    if isinstance(use, ast.Assign) and len(use.targets) == 1 and isinstance(use.targets[0], ast.Name):
                        for sub in ast.walk(use.value):
                            if isinstance(sub, ast.Name) and sub.id == elt.id and isinstance(sub.ctx, ast.Load):
                                group_use.setdefault(idx, use)
                                parent = getattr(sub, "_parent", None)
                                grand = getattr(parent, "_parent", None)
                                if isinstance(parent, ast.Attribute) and parent.attr == "split" and isinstance(grand, ast.Call) \
                                        and grand.args and isinstance(grand.args[0], ast.Constant):
                                    splits[idx] = grand.args[0].value
    for node in ast.walk(lfunc):
        if isinstance(node, ast.Assign) and len(node.targets) == 1 and isinstance(node.targets[0], ast.Name):
            for sub in ast.walk(node.value):
                if isinstance(sub, ast.Subscript) and isinstance(sub.value, ast.Name) and sub.value.id in groups_vars \
                        and isinstance(sub.slice, ast.Constant):
                    idx = sub.slice.value
                    group_use[idx] = node
                    parent = getattr(sub, "_parent", None)
                    grand = getattr(parent, "_parent", None)
                    if isinstance(parent, ast.Attribute) and parent.attr == "split" and isinstance(grand, ast.Call) \
                            and grand.args and isinstance(grand.args[0], ast.Constant):
                        splits[idx] = grand.args[0].value
    if len(group_use) != len(captured):
        raise AnalysisError(f"loadtxt consumes {len(group_use)} groups, regex captures {len(captured)}")
    roles = {"names": "names=", "keys": "numpy.dtype(", "shape": "reshape("}
    for idx, fname in enumerate(captured):
        assign = group_use.get(idx)
        var = assign.targets[0].id if assign is not None else None
        # the variable must flow to the use that belongs to this field
        used_ok = False
        if var is not None:
            for call in calls_in(lfunc):
                text = U(call)
                cname = ctx.dotted(lmod, call.func, ctx.locals_of(lfunc)) or U(call.func)
                if fname == "names" and kwarg(call, "names") is not None and var in U(kwarg(call, "names")):
                    used_ok = True
                if fname == "keys" and cname == "numpy.dtype" and var in text:
                    used_ok = True
                if fname == "shape" and cname.endswith("reshape") and len(call.args) > 1 and var in U(call.args[1]):
                    used_ok = True
        if not used_ok:
            # provenance form (values carried through records / inlined methods):  ...groups()[idx]  reaches the use
            needle = f".groups()[{idx}]"
            from .common import step_exprs as _step_exprs

            for path in ctx.paths(lmod, lfunc, max_iter=1):
                for step in path:
                    for raw in _step_exprs(step):
                        for call in calls_in(raw):
                            cname = ctx.dotted(lmod, call.func, ctx.locals_of(lfunc)) or U(call.func)
                            if fname == "names" and kwarg(call, "names") is not None \
                                    and needle in U(strip_tags(step.expand(kwarg(call, "names")))):
                                used_ok = True
                            if fname == "keys" and cname == "numpy.dtype" and needle in U(strip_tags(step.expand(call))):
                                used_ok = True
                            if fname == "shape" and cname.endswith("reshape") and len(call.args) > 1 \
                                    and needle in U(strip_tags(step.expand(call.args[1]))):
                                used_ok = True
                if used_ok:
                    break
        result.ob(f"group {idx} (field '{fname}') is consumed as {fname}", used_ok, lmod.loc(assign) if assign else lmod.relpath, "")
        if not used_ok:
            result.add(Finding("R-HEADER", lmod, "loadtxt", assign or lfunc,
                               f"capture group {idx} holds the '{fname}' field of the header but is not used as {fname}",
                               construct=f"groups[{idx}] as {fname}"))
        ok = joins.get(fname) is not None and splits.get(idx) == joins.get(fname)
        result.ob(f"field '{fname}': writer joins with {joins.get(fname)!r}, reader splits with {splits.get(idx)!r}",
                  ok, lmod.relpath, "")
        if not ok:
            result.add(Finding("R-HEADER", lmod, "loadtxt", assign or lfunc,
                               f"field '{fname}' is joined with {joins.get(fname)!r} by savetxt but split with "
                               f"{splits.get(idx)!r} by loadtxt", construct=f"separator of {fname}"))
    # language inclusion on representative writer outputs
    samples = {"names": ["q0", "q0,q1,q10"], "keys": [";", ";;,;<,<;", "ÿĀ"], "shape": ["", "3", "2,3,1"],
               "version": ["0.1.0", "1.2.3rc1"]}
    for fname in fields:
        frag = fragments[fname]
        for sample in samples.get(fname, []):
            ok = re.fullmatch(frag, sample) is not None
            result.ob(f"reader fragment {frag!r} of '{fname}' accepts {sample!r}", ok, lmod.loc(regex_b.node), "")
            if not ok:
                result.add(Finding("R-HEADER", lmod, "<module>", regex_b.node,
                                   f"the regex fragment {frag!r} for field '{fname}' cannot match {sample!r}, "
                                   f"which savetxt writes" + (" for a 0-d polynomial" if sample == "" else ""),
                                   construct=f"HEADER_REGEX {fname}={frag}"))
    # empty items must be skipped when the shape field is empty
    shape_idx = captured.index("shape") if "shape" in captured else None
    if shape_idx is not None and shape_idx in group_use:
        assign = group_use[shape_idx]
        text = U(assign.value)
        ok = " if " in text or "filter(" in text
        result.ob("loadtxt skips empty items of the shape field (0-d)", ok, lmod.loc(assign), text)
        if not ok:
            result.add(Finding("R-HEADER", lmod, "loadtxt", assign,
                               "an empty shape field (0-d polynomial) is converted with int('') and raises"))
    # delimiter / alphabet disjointness
    offset = ctx.res.lookup(KEY_OFFSET).node.value.value
    delims = {c for c in literal_chars if not c.isalnum()} | {s for s in joins.values() if s}
    bad = sorted(c for c in delims if ord(c) >= offset)
    result.ob(f"header delimiters {sorted(delims)} lie below the key alphabet (>= chr({offset}))", not bad,
              smod.loc(tmpl_b.node), "")
    if bad:
        result.add(Finding("R-HEADER", smod, "<module>", tmpl_b.node,
                           f"delimiter(s) {bad} can occur inside a key", construct="HEADER_TEMPLATE delimiters"))
    # strict decoding
    for func, module in ((lfunc, lmod), (sfunc, smod)):
        for call in calls_in(func):
            errors = kwarg(call, "errors")
            if errors is not None:
                ok = isinstance(errors, ast.Constant) and errors.value == "strict"
                result.ob(f"{func.name}: {U(call.func)} decodes strictly", ok, module.loc(call), U(errors))
                if not ok:
                    result.add(Finding("R-HEADER", module, func.name, call,
                                       f"errors={U(errors)}: undecodable bytes of a key are replaced/dropped, a "
                                       f"different monomial is loaded instead of raising"))
    # layout restored before the structured view
    found = False
    for call in calls_in(lfunc):
        cname = ctx.dotted(lmod, call.func, ctx.locals_of(lfunc)) or U(call.func)  # also a function-level import
        if cname and cname.endswith("unstructured_to_structured"):
            found = True
            arg = call.args[0]
            text = U(arg)
            m = isinstance(arg, ast.Call) and isinstance(arg.func, ast.Attribute) and arg.func.attr == "reshape"
            keys_assign = group_use.get(captured.index("keys")) if "keys" in captured else None
            keys_var = keys_assign.targets[0].id if keys_assign is not None else "keys"
            second = U(arg.args[1]) if bool(m) and len(arg.args) == 2 else ""
            ok = second == f"len({keys_var})" or (second.startswith("len(") and "keys" in second)
            result.ob("loadtxt restores the (elements, terms) layout before the structured view", ok, lmod.loc(call), text)
            if not ok:
                result.add(Finding("R-HEADER", lmod, "loadtxt", call,
                                   "numpy.loadtxt squeezes one-row / one-column files; the array handed to "
                                   "unstructured_to_structured is not reshaped to (-1, len(keys))"))
    if not found:
        raise AnalysisError("loadtxt no longer calls unstructured_to_structured")
    # the numpoly line is the first header line (loadtxt only inspects line 1)
    n_header = 0
    for node in ast.walk(sfunc):
        if isinstance(node, ast.Assign) and len(node.targets) == 1 and isinstance(node.targets[0], ast.Name) \
                and node.targets[0].id == "header" and not isinstance(node.value, ast.Name):
            n_header += 1

            def first_piece(value):
                """First text piece of a combined header; 'plain' for a bare name; None if unrecognised."""
                if isinstance(value, ast.Name):
                    return "plain"
                if isinstance(value, ast.IfExp):
                    a, b = first_piece(value.body), first_piece(value.orelse)
                    if a is None or b is None:
                        return None
                    combos = [x for x in (a, b) if x != "plain"]
                    return combos[0] if combos else "plain"
                if isinstance(value, ast.BinOp) and isinstance(value.op, ast.Add):
                    cur = value
                    while isinstance(cur, ast.BinOp) and isinstance(cur.op, ast.Add):
                        cur = cur.left
                    return cur if isinstance(cur, ast.Name) else None
                if isinstance(value, ast.Call) and isinstance(value.func, ast.Attribute) and value.func.attr == "join" and value.args:
                    seq = value.args[0]
                    if isinstance(seq, (ast.GeneratorExp, ast.ListComp)) and len(seq.generators) == 1 \
                            and isinstance(seq.elt, ast.Name) and isinstance(seq.generators[0].target, ast.Name) \
                            and seq.elt.id == seq.generators[0].target.id:
                        seq = seq.generators[0].iter  # sep.join(p for p in (a, b) if p): order of the literal
                    if isinstance(seq, (ast.List, ast.Tuple)) and seq.elts:
                        elt = seq.elts[0]
                        return elt if isinstance(elt, ast.Name) else None
                    return None
                if isinstance(value, ast.JoinedStr) and value.values and isinstance(value.values[0], ast.FormattedValue):
                    elt = value.values[0].value
                    return elt if isinstance(elt, ast.Name) else None
                return None

            first = first_piece(node.value)
            if first is None:
                raise AnalysisError(f"savetxt: unrecognised header combination {U(node.value)[:80]}")
            if first == "plain":
                continue
            ok = first.id != "header"
            result.ob("savetxt puts the numpoly line before a user header", ok, smod.loc(node), U(node.value)[:80])
            if not ok:
                result.add(Finding("R-HEADER", smod, "savetxt", node,
                                   f"the combined header is {U(node.value)[:80]}: the user's header comes first, but loadtxt "
                                   f"recognises a numpoly file only by its first line"))
    # writer flattens elements x terms
    ok = False
    for call in calls_in(sfunc):
        cname = ctx.dotted(smod, call.func, ctx.locals_of(sfunc))
        if cname and cname.endswith("structured_to_unstructured"):
            text = U(call.args[0])
            ok = ".values" in text and ("ravel()" in text or "flatten()" in text or "reshape(-1)" in text)
    result.ob("savetxt writes one row per element (values.ravel())", ok, smod.relpath, "")
    if not ok:
        result.add(Finding("R-HEADER", smod, "savetxt", sfunc,
                           "savetxt does not flatten the polynomial to (size, terms) before writing",
                           construct="structured_to_unstructured(X.values.ravel())"))
    result.floor = 12
    return result


def run_values(ctx) -> RuleResult:
    result = RuleResult(
        "R-VALUES",
        "ndpoly.values re-wraps the raw buffer (numpy.ndarray(buffer=self.data)) only when self is "
        "C-contiguous or passes the strides along; otherwise it returns a view - every shape function "
        "reads its argument through .values",
    )
    module = ctx.repo.module("numpoly.baseclass")
    func = ctx.repo.function(module.name, "ndpoly.values")
    n = 0
    for path in ctx.paths(module, func):
        last = path[-1]
        if last.kind != "return" or last.node.value is None:
            continue
        n += 1
        value = last.expand(last.node.value)
        trace = describe_path(path)
        rewrap = None
        for call in calls_in(value):
            if ctx.dotted(module, call.func) == "numpy.ndarray" and kwarg(call, "buffer") is not None:
                rewrap = call
        if rewrap is None:
            ok = ".view(" in U(value) or "numpy.asarray(" in U(value)
            result.ob(f"values returns a stride-preserving view [{' / '.join(trace)}]", ok, module.loc(last.orig), U(value)[:80])
            if not ok:
                result.add(Finding("R-VALUES", module, "ndpoly.values", last.node,
                                   f"values returns {U(value)[:80]}, neither a view nor a re-wrapped buffer"))
            continue
        has_strides = kwarg(rewrap, "strides") is not None
        contiguous = False
        for node, pol in last.fact_items():
            text = U(node)
            if ("C_CONTIGUOUS" in text or ".flags.c_contiguous" in text or ".flags.contiguous" in text
                    or "flags['CONTIGUOUS']" in text or "flags['C']" in text) and pol is True:
                contiguous = True
        ok = has_strides or contiguous
        result.ob(f"raw buffer re-wrapped only for C-contiguous self [{' / '.join(trace)}]", ok, module.loc(last.orig), "")
        if not ok:
            result.add(Finding(
                "R-VALUES", module, "ndpoly.values", rewrap,
                "numpy.ndarray(buffer=self.data) is built without strides on a path that did not establish "
                "self.flags['C_CONTIGUOUS']: for a transposed / sliced polynomial the storage is read in the "
                "wrong element order (numpoly.reshape(poly.T, n) misplaces elements)", derivation=trace))
    if n == 0:
        raise AnalysisError("ndpoly.values: no return found")
    result.floor = 1
    return result


def run_terms(ctx) -> RuleResult:
    """R-TERMS - the term accessors range over every key: ``ndpoly.coefficients`` and ``ndpoly.exponents`` are computed
    from ``self.keys`` unfiltered (a key that is skipped is a term that silently disappears from every consumer:
    alignment, arithmetic, printing), and ``todict`` maps every exponent row to its own coefficient array unconverted
    (a filtered or converted dict cannot rebuild shape / dtype / the zero polynomial)."""
    result = RuleResult(
        "R-TERMS",
        "ndpoly.coefficients / ndpoly.exponents are computed from all of self.keys; todict pairs every exponent row with its "
        "coefficient array itself (no filter, no conversion of the values)",
    )
    module = ctx.repo.module("numpoly.baseclass")
    # -- coefficients: the loop that fills the result iterates self.keys itself
    func = ctx.repo.function(module.name, "ndpoly.coefficients")
    loops = [n for n in ast.walk(func) if isinstance(n, (ast.For, ast.comprehension))]
    if not loops:
        raise AnalysisError("ndpoly.coefficients: no loop over the keys")
    n = 0
    for path in ctx.paths(module, func, max_iter=1):
        for step in path:
            if step.kind != "iter" or not isinstance(step.node, ast.For):
                continue
            it = strip_tags(step.expand(step.node.iter))
            text = U(it)
            if "keys" not in text:
                continue
            n += 1
            core = it
            while isinstance(core, ast.Call) and isinstance(core.func, ast.Name) and core.func.id in ("enumerate", "list", "tuple", "iter") \
                    and core.args:
                core = core.args[0]
            ok = U(core) == "πself.keys"
            result.ob("ndpoly.coefficients iterates self.keys unfiltered", ok, module.loc(step.orig), text[:80])
            if not ok:
                result.add(Finding(
                    "R-TERMS", module, "ndpoly.coefficients", step.node.iter,
                    f"the coefficient list is built from '{text[:80]}', not from all of self.keys: a key that is left out is a term "
                    f"that silently disappears (key strings are arbitrary code points - digits, superscripts and other "
                    f"categories all occur as exponent encodings)",
                    derivation=describe_path(path), construct="ndpoly.coefficients: keys filtered"))
    if n == 0:
        raise AnalysisError("ndpoly.coefficients: key loop not recognised")
    # -- exponents: the uint32 view is taken of self.keys itself
    func = ctx.repo.function(module.name, "ndpoly.exponents")
    m = 0
    for path in ctx.paths(module, func, max_iter=1):
        last = path[-1]
        if last.kind != "return" or last.node.value is None:
            continue
        value = strip_tags(last.expand(last.node.value))
        views = [c for c in ast.walk(value) if isinstance(c, ast.Call) and isinstance(c.func, ast.Attribute)
                 and c.func.attr == "view" and "uint32" in U(c)]
        if not views:
            raise AnalysisError("ndpoly.exponents: no uint32 view in the returned value")
        m += 1
        base = views[0].func.value
        while isinstance(base, ast.Call) and isinstance(base.func, ast.Attribute) and base.func.attr in ("astype", "copy", "ravel", "flatten"):
            base = base.func.value
        ok = U(base) == "πself.keys"
        result.ob("ndpoly.exponents decodes self.keys unfiltered", ok, module.loc(last.orig), U(base)[:80])
        if not ok:
            result.add(Finding(
                "R-TERMS", module, "ndpoly.exponents", last.node,
                f"the exponent matrix is decoded from '{U(base)[:80]}', not from all of self.keys: rows are missing for the keys "
                f"left out, so every consumer loses those terms",
                derivation=describe_path(path), construct="ndpoly.exponents: keys filtered"))
    if m == 0:
        raise AnalysisError("ndpoly.exponents: no return path")
    # -- todict
    func = ctx.repo.function(module.name, "ndpoly.todict")
    t = 0
    for node in ast.walk(func):
        if not isinstance(node, ast.DictComp):
            continue
        t += 1
        gen = node.generators[0] if len(node.generators) == 1 else None
        if gen is None:
            raise AnalysisError("ndpoly.todict: nested dict comprehension")
        it_text = U(gen.iter)
        paired = isinstance(gen.iter, ast.Call) and isinstance(gen.iter.func, ast.Name) and gen.iter.func.id == "zip" \
            and len(gen.iter.args) == 2 and ".exponents" in U(gen.iter.args[0]) and ".coefficients" in U(gen.iter.args[1])
        if not paired:
            raise AnalysisError(f"ndpoly.todict: iteration idiom not recognised: {it_text[:80]}")
        unfiltered = not gen.ifs
        result.ob("todict keeps every term (no filter)", unfiltered, module.loc(node), it_text[:80])
        if not unfiltered:
            result.add(Finding(
                "R-TERMS", module, "ndpoly.todict", node,
                f"todict drops terms ('if {U(gen.ifs[0])[:60]}'): the dictionary of an identically-zero polynomial is empty and "
                f"cannot regenerate its shape, dtype or value (polynomial(p.todict(), names=p.names) must equal p)",
                construct="todict: terms filtered"))
        cvar = gen.target.elts[1].id if isinstance(gen.target, ast.Tuple) and len(gen.target.elts) == 2 \
            and isinstance(gen.target.elts[1], ast.Name) else None
        plain = cvar is not None and isinstance(node.value, ast.Name) and node.value.id == cvar
        result.ob("todict stores the coefficient array itself", plain, module.loc(node), U(node.value)[:60])
        if not plain:
            result.add(Finding(
                "R-TERMS", module, "ndpoly.todict", node,
                f"todict stores '{U(node.value)[:60]}' instead of the coefficient array: converted values (tolist / item / float) lose "
                f"the coefficient dtype, so polynomial(p.todict(), names=p.names) comes back with numpy's default dtype",
                construct="todict: coefficient converted"))
    if t == 0:
        # accumulate form:  out = {}; for ... over all terms: out[tuple(<exponent row>)] = <coefficient>
        for path in ctx.paths(module, func, max_iter=1):
            iters = [i for i, st in enumerate(path) if st.kind == "iter" and isinstance(st.node, ast.For)]
            if not iters:
                continue
            for idx in range(iters[0], len(path)):
                step = path[idx]
                if step.kind != "stmt" or not isinstance(step.node, ast.Assign) or not isinstance(step.node.targets[0], ast.Subscript):
                    continue
                key = strip_tags(step.expand(step.node.targets[0].slice))
                value = strip_tags(step.expand(step.node.value))
                ktext, vtext = U(key), U(value)
                if "πself.exponents" not in ktext:
                    continue
                t += 1
                filtered = any(st.kind == "assume" for st in path[iters[0]:idx])
                result.ob("todict keeps every term (no filter)", not filtered, module.loc(step.orig), ktext[:80])
                if filtered:
                    result.add(Finding(
                        "R-TERMS", module, "ndpoly.todict", step.node,
                        "todict stores a term only under a condition: the dictionary of an identically-zero polynomial is empty "
                        "and cannot regenerate its shape, dtype or value", construct="todict: terms filtered"))
                plain = vtext in ("Σelem(πself.coefficients)",) or (
                    vtext.startswith("πself.coefficients[") and "Σindex(" in vtext)
                result.ob("todict stores the coefficient array itself", plain, module.loc(step.orig), vtext[:60])
                if not plain:
                    result.add(Finding(
                        "R-TERMS", module, "ndpoly.todict", step.node,
                        f"todict stores '{vtext[:60]}' instead of the coefficient array: converted values lose the coefficient "
                        f"dtype", construct="todict: coefficient converted"))
    if t == 0:
        # dict(zip(<exponent tuples>, self.coefficients))
        for path in ctx.paths(module, func, max_iter=1):
            last = path[-1]
            if last.kind != "return" or last.node.value is None:
                continue
            value = strip_tags(last.expand(last.node.value))
            if not (isinstance(value, ast.Call) and isinstance(value.func, ast.Name) and value.func.id == "dict" and len(value.args) == 1
                    and isinstance(value.args[0], ast.Call) and isinstance(value.args[0].func, ast.Name)
                    and value.args[0].func.id == "zip" and len(value.args[0].args) == 2):
                continue
            keys_arg, vals_arg = value.args[0].args
            if "πself.exponents" not in U(keys_arg):
                continue
            t += 1
            filtered = any(isinstance(n, ast.comprehension) and n.ifs for n in ast.walk(keys_arg)) or \
                any(isinstance(n, ast.Call) and isinstance(n.func, ast.Name) and n.func.id == "filter" for n in ast.walk(value))
            result.ob("todict keeps every term (no filter)", not filtered, module.loc(last.orig), U(keys_arg)[:80])
            if filtered:
                result.add(Finding("R-TERMS", module, "ndpoly.todict", last.node,
                                   "todict filters the exponent rows it zips with the coefficients: terms are dropped or mis-paired",
                                   construct="todict: terms filtered"))
            plain = U(vals_arg) == "πself.coefficients"
            result.ob("todict stores the coefficient array itself", plain, module.loc(last.orig), U(vals_arg)[:60])
            if not plain:
                result.add(Finding("R-TERMS", module, "ndpoly.todict", last.node,
                                   f"todict stores '{U(vals_arg)[:60]}' instead of the coefficient arrays: converted values lose the "
                                   f"coefficient dtype", construct="todict: coefficient converted"))
    if t == 0:
        raise AnalysisError("ndpoly.todict: neither a dict comprehension nor an accumulate loop over the terms found")
    result.floor = 4
    return result
