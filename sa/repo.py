"""E1 - source model: load every numpoly/**/*.py and numpoly/cfunctions/*.pyx.

The three Cython files are mapped to plain Python by a line-preserving
normaliser for the Cython subset they use; declared C types and casts are kept
in side tables so that the C-layer rules can reason about them.
"""
from __future__ import annotations

import ast
import hashlib
import os
import re
from typing import Dict, List, Optional, Tuple

from . import AnalysisError

REPO_ROOT = os.environ.get("NUMPOLY_REPO", "/repo")
PACKAGE = "numpoly"


class Module:
    def __init__(self, name: str, relpath: str, src: str, is_package: bool, sources: Optional[Dict[str, str]] = None):
        self.sources = sources or {}  # relpath -> text of every analysed file (private helpers imported from siblings)
        self.name = name
        self.relpath = relpath
        self.src = src
        self.is_package = is_package
        self.is_pyx = relpath.endswith(".pyx")
        self.sha256 = hashlib.sha256(src.encode()).hexdigest()
        self.ctypes: Dict[str, Dict[str, str]] = {}  # function -> var -> C type
        self.casts: Dict[int, List[str]] = {}  # lineno -> cast types on that line
        self.cdef_kind: Dict[str, str] = {}  # function -> def|cdef|cpdef
        pysrc = src
        if self.is_pyx:
            pysrc = normalise_pyx(self)
        self.pysrc = pysrc
        try:
            self.tree = ast.parse(pysrc, filename=relpath)
        except SyntaxError as exc:
            raise AnalysisError(f"cannot parse {relpath}: {exc}") from exc
        if not self.is_pyx:
            self.tree = _WhileIndex().visit(_Walrus().visit(_Canonical(os.path.basename(relpath)[:-3]).visit(self.tree)))
            ast.fix_missing_locations(self.tree)
        self.raw_tree = ast.parse(pysrc, filename=relpath)  # never inlined (anchored rules on helper calls)
        if not self.is_pyx:
            self.raw_tree = _WhileIndex().visit(_Walrus().visit(_Canonical(os.path.basename(relpath)[:-3]).visit(self.raw_tree)))
            ast.fix_missing_locations(self.raw_tree)
        for node in ast.walk(self.raw_tree):
            for child in ast.iter_child_nodes(node):
                child._parent = node  # type: ignore[attr-defined]
        self.absorbed: set = set()  # private helpers whose every use was inlined into its callers
        self.inlined: Dict[str, list] = {}  # function -> helpers inlined into it
        if not self.is_pyx and os.environ.get("VERIF_NO_INLINE") != "1":
            self._inline_helpers()
        for node in ast.walk(self.tree):
            for child in ast.iter_child_nodes(node):
                child._parent = node  # type: ignore[attr-defined]
        self.functions: Dict[str, ast.AST] = {}
        self._index_functions(self.tree, "")

    def _inline_helpers(self) -> None:
        from .inline import inlinable_helpers, inline_function

        helpers = inlinable_helpers(self.tree)
        helpers.update(self._imported_helpers(helpers))
        used_all = set()

        def process(body):
            for idx, node in enumerate(body):
                if isinstance(node, ast.FunctionDef):
                    new, used = inline_function(node, helpers)
                    if used:
                        body[idx] = new
                        self.inlined[node.name] = sorted(used)
                        used_all.update(used)
                elif isinstance(node, ast.ClassDef):
                    process(node.body)

        process(self.tree.body)
        for name in used_all:
            remaining = 0
            for node in self.tree.body:
                if isinstance(node, ast.FunctionDef) and node.name == name:
                    continue
                for sub in ast.walk(node):
                    if isinstance(sub, ast.Name) and sub.id == name and isinstance(sub.ctx, ast.Load):
                        remaining += 1
            if remaining == 0:
                self.absorbed.add(name)

    def _imported_helpers(self, own) -> Dict[str, ast.FunctionDef]:
        """Private helpers imported from a sibling module (``from .maximum import _coefficient_pairs``) are inlined like
        local ones when every global name they use is bound by an identical import in this module."""
        from .inline import inlinable_helpers

        out: Dict[str, ast.FunctionDef] = {}
        my_imports = {ast.unparse(n) for n in self.tree.body if isinstance(n, (ast.Import, ast.ImportFrom))}
        my_bound = set()
        for n in self.tree.body:
            if isinstance(n, (ast.Import, ast.ImportFrom)):
                for alias in n.names:
                    my_bound.add((alias.asname or alias.name).split(".")[0])
        for node in self.tree.body:
            if not (isinstance(node, ast.ImportFrom) and node.level >= 1 and node.module):
                continue
            wanted = [a for a in node.names if a.name.startswith("_") and not a.name.startswith("__")]
            if not wanted:
                continue
            base = self.relpath.split(os.sep)[:-1]
            base = base[: len(base) - (node.level - 1)] if node.level > 1 else base
            rel = os.sep.join(base + node.module.split(".")) + ".py"
            src = self.sources.get(rel)
            if src is None:
                continue
            try:
                tree = ast.parse(src)
            except SyntaxError:
                continue
            tree = _WhileIndex().visit(_Walrus().visit(_Canonical(os.path.basename(rel)[:-3]).visit(tree)))
            ast.fix_missing_locations(tree)
            theirs = inlinable_helpers(tree)
            their_imports = {}
            for n in tree.body:
                if isinstance(n, (ast.Import, ast.ImportFrom)):
                    for alias in n.names:
                        their_imports[(alias.asname or alias.name).split(".")[0]] = ast.unparse(n)
            for alias in wanted:
                helper = theirs.get(alias.name)
                if helper is None or (alias.asname or alias.name) in own:
                    continue
                local = {a.arg for a in helper.args.posonlyargs + helper.args.args + helper.args.kwonlyargs}
                local |= {n.id for n in ast.walk(helper) if isinstance(n, ast.Name) and isinstance(n.ctx, ast.Store)}
                free = {n.id for n in ast.walk(helper) if isinstance(n, ast.Name) and isinstance(n.ctx, ast.Load)} - local
                import builtins

                ok = True
                for name in free:
                    if hasattr(builtins, name):
                        continue
                    if name in their_imports and name in my_bound:
                        # bound by an import in both modules: it must be the same import
                        same = any(name == (a.asname or a.name).split(".")[0] and ast.unparse(n) in my_imports
                                   for n in tree.body if isinstance(n, (ast.Import, ast.ImportFrom)) for a in n.names) \
                            or their_imports[name].split(" import ")[0] in ("import numpy", "import numpoly") and name in my_bound
                        ok = ok and (same or name in ("numpy", "numpoly"))
                    else:
                        ok = False
                if ok:
                    out[alias.asname or alias.name] = helper
        return out

    def _index_functions(self, node: ast.AST, prefix: str) -> None:
        for child in ast.iter_child_nodes(node):
            if isinstance(child, (ast.FunctionDef, ast.AsyncFunctionDef)):
                qual = prefix + child.name
                self.functions[qual] = child
                child._qualname = qual  # type: ignore[attr-defined]
                child._module = self  # type: ignore[attr-defined]
                self._index_functions(child, qual + ".")
            elif isinstance(child, ast.ClassDef):
                child._qualname = prefix + child.name  # type: ignore[attr-defined]
                child._module = self  # type: ignore[attr-defined]
                self._index_functions(child, prefix + child.name + ".")
            elif isinstance(child, (ast.If, ast.Try, ast.With, ast.For, ast.While)):
                self._index_functions(child, prefix)

    def loc(self, node: ast.AST) -> str:
        return f"{self.relpath}:{getattr(node, 'lineno', 0)}"

    def __repr__(self) -> str:
        return f"<Module {self.name}>"


SIGNATURES: Dict[str, Tuple[List[str], int]] = {}  # callable name -> (parameters, number passed positionally)
CONSTRUCTOR_NAMES = {"ndpoly", "from_attributes", "polynomial_from_attributes"}


def _set_signatures(sources: Dict[str, str]) -> None:
    """Parameter lists of the repository's own callables whose name is unique, so that positional arguments
    of internal calls can be analysed as keywords (``from_attributes(e, c, n)`` == ``from_attributes(exponents=e,
    coefficients=c, names=n)``)."""
    found: Dict[str, list] = {}
    for rel, src in sources.items():
        if not rel.endswith(".py") or os.environ.get("VERIF_NO_KEYWORDS") == "1":
            continue
        try:
            tree = ast.parse(src)
        except SyntaxError:
            continue
        for node in tree.body:
            if isinstance(node, ast.FunctionDef):
                found.setdefault(node.name, []).append((node, False))
            elif isinstance(node, ast.ClassDef) and node.name == "ndpoly":
                for sub in node.body:
                    if isinstance(sub, ast.FunctionDef) and sub.name == "__new__":
                        found.setdefault("ndpoly", []).append((sub, True))
                    if isinstance(sub, ast.FunctionDef) and sub.name == "from_attributes":
                        static = any(isinstance(d, ast.Name) and d.id == "staticmethod" for d in sub.decorator_list)
                        found.setdefault("from_attributes", []).append((sub, not static))
    from . import paths as _paths

    _paths.RECORDS.clear()
    for rel, src in sources.items():
        if not rel.endswith(".py"):
            continue
        try:
            tree = ast.parse(src)
        except SyntaxError:
            continue
        for node in tree.body:
            if isinstance(node, ast.ClassDef):
                named = any((isinstance(b, ast.Name) and b.id == "NamedTuple") or (isinstance(b, ast.Attribute) and b.attr == "NamedTuple")
                            for b in node.bases)
                data = any("dataclass" in ast.unparse(d) for d in node.decorator_list)
                if named or data:
                    fields = [st.target.id for st in node.body if isinstance(st, ast.AnnAssign) and isinstance(st.target, ast.Name)]
                    if fields:
                        _paths.RECORDS[node.name] = fields
    SIGNATURES.clear()
    for name, defs in found.items():
        if len(defs) != 1:
            continue
        func, bound = defs[0]
        if func.args.vararg is not None or func.args.posonlyargs:
            continue
        params = [a.arg for a in func.args.args]
        required = len(params) - len(func.args.defaults)
        if bound:
            params = params[1:]
            required -= 1
        if name in CONSTRUCTOR_NAMES:
            required = 0  # the rules read every constructor argument by keyword
        SIGNATURES[name] = (params, max(required, 0))


class _Canonical(ast.NodeTransformer):
    """Equivalent spellings are analysed in one canonical form:
    ``x.any(...)`` / ``x.all(...)`` (ndarray methods) become ``numpy.any(x, ...)`` / ``numpy.all(x, ...)``;
    calls to the repository's own (uniquely named) functions pass the parameters without default positionally
    and the defaulted ones by keyword; the polynomial constructors receive everything by keyword."""

    def __init__(self, basename: str = ""):
        super().__init__()
        self.basename = basename  # 'reshape' for numpoly/array_function/reshape.py: the wrapper's own delegate stays

    def _keywords(self, node):
        func = node.func
        if isinstance(func, ast.Name):
            name, root = func.id, None
        elif isinstance(func, ast.Attribute):
            name = func.attr
            cur = func
            while isinstance(cur, ast.Attribute):
                cur = cur.value
            root = cur.id if isinstance(cur, ast.Name) else ""
            if name != "from_attributes" and root != "numpoly":
                return node
        else:
            return node
        if name not in SIGNATURES or any(isinstance(a, ast.Starred) for a in node.args):
            return node
        params, required = SIGNATURES[name]
        if len(node.args) > len(params) or any(kw.arg is None for kw in node.keywords):
            return node
        bound = {}
        for idx, arg in enumerate(node.args):
            bound[params[idx]] = arg
        for kw in node.keywords:
            if kw.arg in bound:
                return node
            bound[kw.arg] = kw.value
        # canonical form: required parameters positional, defaulted parameters by keyword
        if any(p not in bound for p in params[:required]):
            return node
        node.args = [bound[p] for p in params[:required]]
        order = [p for p in params[required:] if p in bound] + [k for k in bound if k not in params]
        node.keywords = [ast.keyword(arg=k, value=bound[k]) for k in order]
        return node

    def visit_Call(self, node):
        self.generic_visit(node)
        node = self._keywords(node)
        func = node.func
        # functools.partial(f, a)(b) -> f(a, b);  map(f, seq) -> (f(x) for x in seq)
        if isinstance(func, ast.Call) and ast.unparse(func.func) in ("functools.partial", "partial") and func.args:
            return ast.copy_location(ast.Call(func=func.args[0], args=list(func.args[1:]) + list(node.args),
                                              keywords=list(func.keywords) + list(node.keywords)), node)
        if isinstance(func, ast.Name) and func.id == "map" and len(node.args) == 2 and not node.keywords \
                and not isinstance(node.args[1], ast.Starred):
            var = ast.Name(id="MAPPED__item", ctx=ast.Load())
            mapper = node.args[0]
            if isinstance(mapper, ast.Call) and ast.unparse(mapper.func) in ("functools.partial", "partial") and mapper.args:
                elt = ast.Call(func=mapper.args[0], args=list(mapper.args[1:]) + [var], keywords=list(mapper.keywords))
            elif isinstance(mapper, (ast.Name, ast.Attribute)):
                elt = ast.Call(func=mapper, args=[var], keywords=[])
            else:
                elt = None
            if elt is not None:
                gen = ast.GeneratorExp(elt=elt, generators=[ast.comprehension(
                    target=ast.Name(id="MAPPED__item", ctx=ast.Store()), iter=node.args[1], ifs=[], is_async=0)])
                return ast.copy_location(gen, node)
        # numpy.ravel(x) / numpy.reshape(x, (a, b)) on a value that is not the polynomial storage of the mirrored wrapper:
        # the method spelling x.ravel() / x.reshape(a, b) is the one the code base (and the rules) use
        if isinstance(func, ast.Attribute) and isinstance(func.value, ast.Name) and func.value.id in ("numpy", "np") \
                and func.attr in ("ravel", "reshape") and node.args and not isinstance(node.args[0], ast.Starred) \
                and self.basename != func.attr and not isinstance(node.args[0], (ast.List, ast.Tuple, ast.ListComp)):
            recv = node.args[0]
            rest = list(node.args[1:])
            if func.attr == "reshape" and rest and isinstance(rest[0], ast.Tuple) and not any(
                    isinstance(e, ast.Starred) for e in rest[0].elts):
                rest = list(rest[0].elts) + rest[1:]
            new = ast.Call(func=ast.Attribute(value=recv, attr=func.attr, ctx=ast.Load()), args=rest, keywords=list(node.keywords))
            return ast.copy_location(new, node)
        # numpy.transpose(x) with no axes is x.T
        if isinstance(func, ast.Attribute) and isinstance(func.value, ast.Name) and func.value.id in ("numpy", "np") \
                and func.attr == "transpose" and len(node.args) == 1 and not node.keywords and self.basename != "transpose" \
                and not isinstance(node.args[0], (ast.Starred, ast.List, ast.Tuple, ast.ListComp)):
            return ast.copy_location(ast.Attribute(value=node.args[0], attr="T", ctx=ast.Load()), node)
        if isinstance(func, ast.Attribute) and func.attr in ("any", "all") and not (
            isinstance(func.value, ast.Name) and func.value.id in ("numpy", "np", "numpoly", "builtins")
        ):
            new = ast.Call(
                func=ast.Attribute(value=ast.Name(id="numpy", ctx=ast.Load()), attr=func.attr, ctx=ast.Load()),
                args=[func.value] + list(node.args),
                keywords=list(node.keywords),
            )
            return ast.copy_location(new, node)
        return node


class _WhileIndex(ast.NodeTransformer):
    """``i = A; while i < len(S): <body>; i += 1`` is the index loop ``for i in range(A, len(S)): <body>`` (A a
    non-negative integer literal; the body does not otherwise assign i and has no ``continue``; i is not read after
    the loop).  The for-form is what the path interpreter binds positions and elements for."""

    def _block(self, stmts):
        out = []
        idx = 0
        while idx < len(stmts):
            stmt = stmts[idx]
            new = None
            if isinstance(stmt, ast.While) and out:
                new = self._convert(out, stmt, stmts[idx + 1:])
            if new is not None:
                init_pos, loop = new
                del out[init_pos]
                out.append(loop)
            else:
                out.append(stmt)
            idx += 1
        return out

    @staticmethod
    def _convert_pre_increment(before, loop):
        """``i = -1; while i + 1 < len(S): i += 1; <body>``  ->  ``for i in range(len(S)): <body>``"""
        test = loop.test
        if not (isinstance(test, ast.Compare) and len(test.ops) == 1 and isinstance(test.ops[0], ast.Lt)
                and isinstance(test.left, ast.BinOp) and isinstance(test.left.op, ast.Add) and isinstance(test.left.left, ast.Name)
                and isinstance(test.left.right, ast.Constant) and test.left.right.value == 1
                and isinstance(test.comparators[0], ast.Call) and isinstance(test.comparators[0].func, ast.Name)
                and test.comparators[0].func.id == "len" and len(test.comparators[0].args) == 1):
            return None
        var = test.left.left.id
        body = loop.body
        first = body[0] if body else None
        if not (isinstance(first, ast.AugAssign) and isinstance(first.op, ast.Add) and isinstance(first.target, ast.Name)
                and first.target.id == var and isinstance(first.value, ast.Constant) and first.value.value == 1):
            return None
        for node in [n for st in body[1:] for n in ast.walk(st)]:
            if isinstance(node, ast.Name) and node.id == var and isinstance(node.ctx, ast.Store):
                return None
        init_pos = None
        for pos in range(len(before) - 1, -1, -1):
            st = before[pos]
            if isinstance(st, ast.Assign) and len(st.targets) == 1 and isinstance(st.targets[0], ast.Name) and st.targets[0].id == var \
                    and isinstance(st.value, ast.UnaryOp) and isinstance(st.value.op, ast.USub) \
                    and isinstance(st.value.operand, ast.Constant) and st.value.operand.value == 1:
                init_pos = pos
                break
            if isinstance(st, ast.Assign) and len(st.targets) == 1 and isinstance(st.targets[0], ast.Name) and st.targets[0].id == var \
                    and isinstance(st.value, ast.Constant) and st.value.value == -1:
                init_pos = pos
                break
            if any(isinstance(n, ast.Name) and n.id == var for n in ast.walk(st)):
                return None
        if init_pos is None:
            return None
        rng = ast.Call(func=ast.Name(id="range", ctx=ast.Load()), args=[test.comparators[0]], keywords=[])
        new = ast.For(target=ast.Name(id=var, ctx=ast.Store()), iter=rng, body=body[1:] or [ast.Pass()], orelse=loop.orelse,
                      type_comment=None)
        ast.copy_location(new, loop)
        ast.fix_missing_locations(new)
        return init_pos, new

    @staticmethod
    def _convert(before, loop, after):
        pre = _WhileIndex._convert_pre_increment(before, loop)
        if pre is not None:
            return pre
        test = loop.test
        if not (isinstance(test, ast.Compare) and len(test.ops) == 1 and isinstance(test.ops[0], (ast.Lt, ast.NotEq))
                and isinstance(test.left, ast.Name) and isinstance(test.comparators[0], ast.Call)
                and isinstance(test.comparators[0].func, ast.Name) and test.comparators[0].func.id == "len"
                and len(test.comparators[0].args) == 1):
            return None
        var = test.left.id
        body = loop.body
        last = body[-1] if body else None
        if not (isinstance(last, ast.AugAssign) and isinstance(last.op, ast.Add) and isinstance(last.target, ast.Name)
                and last.target.id == var and isinstance(last.value, ast.Constant) and last.value.value == 1):
            return None
        for node in [n for st in body[:-1] for n in ast.walk(st)]:
            if isinstance(node, ast.Continue) or (isinstance(node, ast.Name) and node.id == var and isinstance(node.ctx, ast.Store)):
                return None
        if any(isinstance(n, ast.Name) and n.id == var and isinstance(n.ctx, ast.Load) for st in after for n in ast.walk(st)):
            return None
        # the initialisation: the closest preceding 'var = <int literal>' with no other mention of var in between
        init_pos = None
        for pos in range(len(before) - 1, -1, -1):
            st = before[pos]
            if isinstance(st, ast.Assign) and len(st.targets) == 1 and isinstance(st.targets[0], ast.Name) and st.targets[0].id == var \
                    and isinstance(st.value, ast.Constant) and isinstance(st.value.value, int) and not isinstance(st.value.value, bool) \
                    and st.value.value >= 0:
                init_pos = pos
                break
            if any(isinstance(n, ast.Name) and n.id == var for n in ast.walk(st)):
                return None
        if init_pos is None:
            return None
        start = before[init_pos].value
        args = [test.comparators[0]] if start.value == 0 else [start, test.comparators[0]]
        rng = ast.Call(func=ast.Name(id="range", ctx=ast.Load()), args=args, keywords=[])
        new = ast.For(target=ast.Name(id=var, ctx=ast.Store()), iter=rng, body=body[:-1] or [ast.Pass()], orelse=loop.orelse,
                      type_comment=None)
        ast.copy_location(new, loop)
        ast.fix_missing_locations(new)
        return init_pos, new

    def generic_visit(self, node):
        for field, value in ast.iter_fields(node):
            if isinstance(value, list) and value and isinstance(value[0], ast.stmt):
                value = [self.visit(v) for v in value]
                setattr(node, field, self._block(value))
            elif isinstance(value, list):
                setattr(node, field, [self.visit(v) if isinstance(v, ast.AST) else v for v in value])
            elif isinstance(value, ast.AST):
                setattr(node, field, self.visit(value))
        return node


class _Walrus(ast.NodeTransformer):
    """``if (x := e) is None: ...`` is analysed as ``x = e`` followed by ``if x is None: ...``: every assignment expression
    in the header of a statement (not inside a lambda, a comprehension or a ``while`` test, which are evaluated later
    or repeatedly) is hoisted, in evaluation order, into a plain assignment in front of the statement."""

    class _Collect(ast.NodeTransformer):
        def __init__(self):
            self.pre = []

        def _skip(self, node):
            return node

        visit_Lambda = visit_ListComp = visit_SetComp = visit_DictComp = visit_GeneratorExp = _skip

        def visit_NamedExpr(self, node):
            value = self.visit(node.value)
            assign = ast.Assign(targets=[ast.Name(id=node.target.id, ctx=ast.Store())], value=value)
            ast.copy_location(assign, node)
            ast.fix_missing_locations(assign)
            self.pre.append(assign)
            return ast.copy_location(ast.Name(id=node.target.id, ctx=ast.Load()), node)

    HEADER_FIELDS = {
        ast.If: ("test",), ast.For: ("iter",), ast.Return: ("value",), ast.Assign: ("value",), ast.AugAssign: ("value",),
        ast.AnnAssign: ("value",), ast.Expr: ("value",), ast.Assert: ("test", "msg"), ast.Raise: ("exc", "cause"),
        ast.With: ("items",), ast.Delete: (),
    }

    def _block(self, stmts):
        out = []
        for stmt in stmts:
            stmt = self.generic_visit(stmt) if not isinstance(stmt, (ast.FunctionDef, ast.AsyncFunctionDef, ast.ClassDef)) \
                else self.visit(stmt)
            if isinstance(stmt, ast.While) and not stmt.orelse and any(isinstance(n, ast.NamedExpr) for n in ast.walk(stmt.test)) \
                    and not any(isinstance(n, (ast.Lambda, ast.ListComp, ast.GeneratorExp, ast.SetComp, ast.DictComp))
                                for n in ast.walk(stmt.test)):
                # while (x := e) is not None: body   ==   while True: x = e; if not (x is not None): break; body
                collect = self._Collect()
                test = collect.visit(stmt.test)
                guard = ast.If(test=ast.UnaryOp(op=ast.Not(), operand=test), body=[ast.Break()], orelse=[])
                new_loop = ast.While(test=ast.Constant(value=True), body=collect.pre + [guard] + stmt.body, orelse=[])
                for node in (guard, new_loop):
                    ast.copy_location(node, stmt)
                ast.fix_missing_locations(new_loop)
                out.append(new_loop)
                continue
            fields = self.HEADER_FIELDS.get(type(stmt))
            if fields and any(isinstance(n, ast.NamedExpr) for f in fields for v in [getattr(stmt, f, None)]
                              for item in (v if isinstance(v, list) else [v]) if item is not None for n in ast.walk(item)):
                collect = self._Collect()
                for f in fields:
                    value = getattr(stmt, f, None)
                    if isinstance(value, list):
                        setattr(stmt, f, [collect.visit(v) for v in value])
                    elif value is not None:
                        setattr(stmt, f, collect.visit(value))
                out.extend(collect.pre)
            out.append(stmt)
        return out

    def generic_visit(self, node):
        for field, value in ast.iter_fields(node):
            if isinstance(value, list) and value and isinstance(value[0], ast.stmt):
                setattr(node, field, self._block(value))
            elif isinstance(value, list):
                setattr(node, field, [self.visit(v) if isinstance(v, ast.AST) else v for v in value])
            elif isinstance(value, ast.AST):
                setattr(node, field, self.visit(value))
        return node


# ---------------------------------------------------------------------------
# Cython subset normaliser

_CAST_RE = re.compile(r"<\s*([A-Za-z_][\w\s\.]*?\s*\**)\s*>")
_HEADER_RE = re.compile(r"^(\s*)(cdef|cpdef|def)\s+(?:(?:inline\s+)?[\w\.\[\]\*\s]+?\s+)?(\w+)\s*\($")
_HEADER_PLAIN_RE = re.compile(r"^(\s*)(cdef|cpdef|def)\s+(?:[\w\.\*]+\s+)?(\w+)\s*\(\s*$")


def _split_param(text: str) -> Tuple[str, str, str]:
    """'np.ndarray[np.uint32_t, ndim=2] expons1,' -> (type, name, default)."""
    text = text.strip().rstrip(",").strip()
    default = ""
    if "=" in text and "[" not in text.split("=")[0][-1:]:
        # only split on a top-level '=' (none of the files use defaults today)
        depth = 0
        for idx, char in enumerate(text):
            if char in "[(":
                depth += 1
            elif char in "])":
                depth -= 1
            elif char == "=" and depth == 0:
                text, default = text[:idx].strip(), text[idx + 1 :].strip()
                break
    match = re.match(r"^(.*?)(\w+)$", text, re.S)
    if not match:
        raise AnalysisError(f"pyx normaliser: cannot split parameter {text!r}")
    return match.group(1).strip(), match.group(2), default


def normalise_pyx(mod: Module) -> str:
    lines = mod.src.split("\n")
    out: List[str] = []
    func: Optional[str] = None
    in_header = False
    header_indent = ""
    idx = 0
    while idx < len(lines):
        line = lines[idx]
        lineno = idx + 1
        stripped = line.strip()
        indent = line[: len(line) - len(line.lstrip())]
        if in_header:
            if stripped.startswith(")"):
                out.append(f"{header_indent}):")
                in_header = False
            elif not stripped or stripped.startswith("#"):
                out.append(line)
            else:
                ctype, name, default = _split_param(stripped)
                mod.ctypes[func][name] = ctype or "object"
                mod.ctypes[func].setdefault("__params__", "")
                mod.ctypes[func]["__params__"] += name + " "
                out.append(f"{indent}{name}{'=' + default if default else ''},")
            idx += 1
            continue
        if re.match(r"^\s*(from\s+[\w\.]+\s+)?cimport\s", line):
            out.append(f"{indent}pass" if indent else "")
            idx += 1
            continue
        match = _HEADER_PLAIN_RE.match(line) or _HEADER_RE.match(line)
        if match and match.group(2) in ("cdef", "cpdef", "def") and stripped.endswith("("):
            header_indent, kind, func = match.group(1), match.group(2), match.group(3)
            mod.ctypes[func] = {}
            mod.cdef_kind[func] = kind
            out.append(f"{header_indent}def {func}(")
            in_header = True
            idx += 1
            continue
        if stripped.startswith("cdef "):
            body = stripped[len("cdef ") :]
            value = None
            if "=" in body:
                body, value = body.split("=", 1)
                body, value = body.strip(), value.strip()
            # 'char key[256]' / 'char *ptr' / 'Py_ssize_t i, j' / 'set seen'
            arr = re.match(r"^([\w\.]+(?:\s+[\w\.]+)*?)\s*(\*?)\s*(\w+)\s*\[(\d+)\]$", body)
            if arr:
                ctype, star, name, size = arr.groups()
                mod.ctypes.setdefault(func or "", {})[name] = f"{ctype}{star}[{size}]"
                out.append(f"{indent}pass")
                idx += 1
                continue
            names_part = body
            parts = [p.strip() for p in names_part.split(",")]
            first = re.match(r"^(.*?)(\*?)\s*(\w+)$", parts[0])
            if not first:
                raise AnalysisError(f"pyx normaliser: {mod.relpath}:{lineno}: {stripped!r}")
            ctype = first.group(1).strip()
            decl_names = [(first.group(2), first.group(3))]
            for part in parts[1:]:
                sub = re.match(r"^(\*?)\s*(\w+)$", part)
                if not sub:
                    raise AnalysisError(
                        f"pyx normaliser: {mod.relpath}:{lineno}: {stripped!r}"
                    )
                decl_names.append((sub.group(1), sub.group(2)))
            for star, name in decl_names:
                mod.ctypes.setdefault(func or "", {})[name] = (ctype + " " + star).strip()
            if value is not None:
                casts = _CAST_RE.findall(value)
                if casts:
                    mod.casts[lineno] = [c.strip() for c in casts]
                value = _CAST_RE.sub("", value)
                out.append(f"{indent}{decl_names[0][1]} = {value}")
            else:
                out.append(f"{indent}pass")
            idx += 1
            continue
        casts = _CAST_RE.findall(line) if "<" in line and ">" in line else []
        # do not mistake comparisons for casts: a cast is '<' type '>' followed by
        # an operand, and the type must look like a C type name
        real = [
            c
            for c in casts
            if re.match(r"^[A-Za-z_][\w\.]*(\s+[A-Za-z_][\w\.]*)*\s*\**$", c.strip())
            and not re.search(r"[\w\)\]]\s*<\s*" + re.escape(c), line)
        ]
        if real:
            mod.casts[lineno] = [c.strip() for c in real]
            for cast in real:
                line = re.sub(r"<\s*" + re.escape(cast) + r"\s*>", "", line, count=1)
        out.append(line)
        idx += 1
    return "\n".join(out)


# ---------------------------------------------------------------------------


class Repo:
    def __init__(self, root: str = REPO_ROOT, overrides: Optional[Dict[str, str]] = None):
        self.root = root
        self.overrides = dict(overrides or {})
        self.modules: Dict[str, Module] = {}
        self.by_relpath: Dict[str, Module] = {}
        self._load()

    def _load(self) -> None:
        pkg_root = os.path.join(self.root, PACKAGE)
        if not os.path.isdir(pkg_root):
            raise AnalysisError(f"{pkg_root} is not a directory")
        relpaths = []
        for dirpath, dirnames, filenames in os.walk(pkg_root):
            dirnames[:] = sorted(d for d in dirnames if d != "__pycache__")
            for filename in sorted(filenames):
                if filename.endswith(".py") or filename.endswith(".pyx"):
                    full = os.path.join(dirpath, filename)
                    relpaths.append(os.path.relpath(full, self.root))
        for rel in self.overrides:
            if rel not in relpaths and (rel.endswith(".py") or rel.endswith(".pyx")):
                relpaths.append(rel)
        sources = {}
        for rel in sorted(relpaths):
            if rel in self.overrides:
                if self.overrides[rel] is None:
                    continue
                sources[rel] = self.overrides[rel]
            else:
                with open(os.path.join(self.root, rel), encoding="utf-8") as handle:
                    sources[rel] = handle.read()
        _set_signatures(sources)
        for rel in sorted(sources):
            src = sources[rel]
            parts = rel[: rel.rindex(".")].split(os.sep)
            is_package = parts[-1] == "__init__"
            if is_package:
                parts = parts[:-1]
            name = ".".join(parts)
            if name in self.modules:
                # a .py and a .pyx of the same name: keep both, .pyx under its name
                raise AnalysisError(f"duplicate module {name}")
            module = Module(name, rel, src, is_package, sources)
            self.modules[name] = module
            self.by_relpath[rel] = module

    def module(self, name: str) -> Module:
        if name not in self.modules:
            raise AnalysisError(f"anchor module {name} is missing")
        return self.modules[name]

    def raw_function(self, modname: str, qualname: str) -> ast.FunctionDef:
        """The function as written (helpers not inlined)."""
        module = self.module(modname)
        if not hasattr(module, "raw_functions"):
            module.raw_functions = {}
            saved = module.functions
            module.functions = module.raw_functions
            module._index_functions(module.raw_tree, "")
            module.functions = saved
        if qualname not in module.raw_functions:
            raise AnalysisError(f"anchor function {modname}:{qualname} is missing")
        return module.raw_functions[qualname]

    def function(self, modname: str, qualname: str) -> ast.FunctionDef:
        module = self.module(modname)
        if qualname not in module.functions:
            raise AnalysisError(f"anchor function {modname}:{qualname} is missing")
        return module.functions[qualname]  # type: ignore[return-value]

    def all_functions(self):
        for module in self.modules.values():
            for qual, node in module.functions.items():
                yield module, qual, node

    def analysed_functions(self):
        """All functions except private helpers that were inlined into every caller."""
        for module, qual, node in self.all_functions():
            if node.name in module.absorbed and "." not in qual:
                continue
            yield module, qual, node

    def digest(self) -> Dict[str, str]:
        return {m.relpath: m.sha256 for m in self.modules.values()}
