"""AST-level inlining of private same-module helpers.

A maintainer may extract part of a function into a private helper (``_fill_values(poly, coefficients)``)
without changing behaviour.  The rules are intraprocedural, so before analysis every statement-level call

    target = _helper(args)      return _helper(args)      _helper(args)

of a private (``_name``), same-module, non-recursive helper whose ``return`` statements are all in tail
position is replaced by the helper's body with its locals renamed, its parameters bound to the arguments
and its returns turned into assignments.  Anything outside this shape is left as a call.
"""
from __future__ import annotations

import ast
import copy
import itertools
from typing import Dict, List, Optional, Set

_COUNTER = itertools.count(1)
MAX_DEPTH = 3
MAX_HELPER_STATEMENTS = 80


def _has_bad_constructs(func: ast.FunctionDef) -> bool:
    if func.decorator_list or func.args.vararg:
        return True
    for node in ast.walk(func):
        if node is func:
            continue
        if isinstance(node, (ast.Yield, ast.YieldFrom, ast.Await, ast.FunctionDef, ast.AsyncFunctionDef,
                             ast.ClassDef, ast.Global, ast.Nonlocal)):
            return True
    return sum(1 for _ in ast.walk(func) if isinstance(_, ast.stmt)) > MAX_HELPER_STATEMENTS


def _returns_in_tail_position(stmts: List[ast.stmt]) -> bool:
    """Every Return is reachable only as the last statement of the function or of if/else branches."""
    for idx, stmt in enumerate(stmts):
        if isinstance(stmt, ast.Return):
            continue
        if isinstance(stmt, ast.If):
            if not _returns_in_tail_position(stmt.body) or not _returns_in_tail_position(stmt.orelse):
                return False
            continue
        for sub in ast.walk(stmt):
            if isinstance(sub, ast.Return):
                return False  # return inside a loop / try / with
    return True


def _ends(stmts: List[ast.stmt]) -> bool:
    """The block cannot fall through (ends with return / raise on every branch)."""
    if not stmts:
        return False
    last = stmts[-1]
    if isinstance(last, (ast.Return, ast.Raise)):
        return True
    if isinstance(last, ast.If):
        return bool(last.orelse) and _ends(last.body) and _ends(last.orelse)
    return False


def _convert_returns(stmts: List[ast.stmt], make_result) -> List[ast.stmt]:
    out: List[ast.stmt] = []
    for idx, stmt in enumerate(stmts):
        if isinstance(stmt, ast.Return):
            out.extend(make_result(stmt))
            return out
        if isinstance(stmt, ast.If) and any(isinstance(n, ast.Return) for n in ast.walk(stmt)):
            rest = stmts[idx + 1:]
            body = stmt.body + ([] if _ends(stmt.body) else copy.deepcopy(rest))
            orelse = stmt.orelse + ([] if _ends(stmt.orelse) and stmt.orelse else copy.deepcopy(rest))
            new_if = ast.If(test=stmt.test, body=_convert_returns(body, make_result) or [ast.Pass()],
                            orelse=_convert_returns(orelse, make_result))
            ast.copy_location(new_if, stmt)
            out.append(new_if)
            return out
        out.append(stmt)
    out.extend(make_result(None))
    return out


class _Rename(ast.NodeTransformer):
    def __init__(self, names: Set[str], suffix: str):
        self.names, self.suffix = set(names), suffix

    def visit_Lambda(self, node):
        bound = {a.arg for a in node.args.posonlyargs + node.args.args + node.args.kwonlyargs}
        saved = self.names
        self.names = self.names - bound
        node = self.generic_visit(node)
        self.names = saved
        return node

    def visit_Name(self, node):
        if node.id in self.names:
            return ast.copy_location(ast.Name(id=node.id + self.suffix, ctx=node.ctx), node)
        return node

    def visit_ExceptHandler(self, node):
        if node.name in self.names:
            node.name = node.name + self.suffix
        return self.generic_visit(node)


def _locals(func: ast.FunctionDef) -> Set[str]:
    names = {a.arg for a in func.args.posonlyargs + func.args.args + func.args.kwonlyargs}
    if func.args.kwarg is not None:
        names.add(func.args.kwarg.arg)
    for node in ast.walk(func):
        if isinstance(node, ast.Name) and isinstance(node.ctx, (ast.Store, ast.Del)):
            names.add(node.id)
        elif isinstance(node, ast.ExceptHandler) and node.name:
            names.add(node.name)
    return names


def _bind_arguments(helper: ast.FunctionDef, call: ast.Call, suffix: str) -> Optional[List[ast.stmt]]:
    params = helper.args.posonlyargs + helper.args.args
    kwonly = helper.args.kwonlyargs
    starstar = [kw for kw in call.keywords if kw.arg is None]
    if any(isinstance(a, ast.Starred) for a in call.args):
        return None
    if starstar and (helper.args.kwarg is None or len(starstar) > 1):
        return None
    if len(call.args) > len(params):
        return None
    bound: Dict[str, ast.expr] = {}
    for param, arg in zip(params, call.args):
        bound[param.arg] = arg
    names = {p.arg for p in params + kwonly}
    extra = []
    for kw in call.keywords:
        if kw.arg is None:
            continue
        if kw.arg in bound:
            return None
        if kw.arg not in names:
            if helper.args.kwarg is None:
                return None
            extra.append(kw)
            continue
        bound[kw.arg] = kw.value
    kwarg_value = None
    if helper.args.kwarg is not None:
        # **kwargs of the helper: the caller's own ** mapping passed through, plus explicit extras
        if starstar and not extra:
            kwarg_value = starstar[0].value
        else:
            kwarg_value = ast.Dict(keys=[ast.Constant(kw.arg) for kw in extra] + ([None] if starstar else []),
                                   values=[kw.value for kw in extra] + ([starstar[0].value] if starstar else []))
    defaults = helper.args.defaults
    for param, default in zip(params[len(params) - len(defaults):], defaults):
        bound.setdefault(param.arg, default)
    for param, default in zip(kwonly, helper.args.kw_defaults):
        if default is not None:
            bound.setdefault(param.arg, default)
    if any(p.arg not in bound for p in params + kwonly):
        return None
    stmts = []
    for param in params + kwonly:
        assign = ast.Assign(targets=[ast.Name(id=param.arg + suffix, ctx=ast.Store())], value=bound[param.arg])
        ast.copy_location(assign, call)
        stmts.append(assign)
    if kwarg_value is not None:
        assign = ast.Assign(targets=[ast.Name(id=helper.args.kwarg.arg + suffix, ctx=ast.Store())], value=kwarg_value)
        ast.copy_location(assign, call)
        ast.fix_missing_locations(assign)
        stmts.append(assign)
    return stmts


def _method_kind(func: ast.FunctionDef) -> str:
    for dec in func.decorator_list:
        if isinstance(dec, ast.Name) and dec.id in ("classmethod", "staticmethod"):
            return dec.id
    return "instance"


def helper_key(call: ast.Call, helpers) -> Optional[str]:
    """Key in ``helpers`` of the private helper a call refers to: a module-level function ``_f(...)``, a class/static
    method of a private class ``_Cls.m(...)``, or an instance method ``obj.m(...)`` whose name is defined by exactly
    one private class of the module (``.m`` -> ``_Cls.m``)."""
    func = call.func
    if isinstance(func, ast.Name):
        return func.id if func.id in helpers else None
    if isinstance(func, ast.Attribute) and isinstance(func.value, ast.Name):
        direct = f"{func.value.id}.{func.attr}"
        if direct in helpers and getattr(helpers[direct], "_method_kind", "") in ("classmethod", "staticmethod"):
            return direct
        unique = helpers.get("." + func.attr)
        if unique is not None and getattr(unique, "_method_kind", "") == "instance" and not func.value.id.startswith("numpy") \
                and func.value.id not in ("numpoly", "self", "cls"):
            return "." + func.attr
    return None


def _helper_call(stmt: ast.stmt):
    """(call, kind) for the three inlinable statement shapes."""
    if isinstance(stmt, ast.Assign) and isinstance(stmt.value, ast.Call):
        return stmt.value, "assign"
    if isinstance(stmt, ast.Return) and isinstance(stmt.value, ast.Call):
        return stmt.value, "return"
    if isinstance(stmt, ast.Expr) and isinstance(stmt.value, ast.Call):
        return stmt.value, "expr"
    return None, None


class _Hoist(ast.NodeTransformer):
    """Replace helper calls at unconditionally evaluated positions of one simple statement by temporaries."""

    def __init__(self, helpers, stack, keep):
        self.helpers, self.stack, self.keep = helpers, stack, keep
        self.pre: List[ast.stmt] = []

    def _skip(self, node):
        return node

    visit_Lambda = visit_ListComp = visit_SetComp = visit_DictComp = visit_GeneratorExp = _skip

    def visit_IfExp(self, node):
        node.test = self.visit(node.test)
        return node

    def visit_BoolOp(self, node):
        node.values[0] = self.visit(node.values[0])
        return node

    def visit_Call(self, node):
        node = self.generic_visit(node)
        key = helper_key(node, self.helpers)
        if node is not self.keep and key is not None and key not in self.stack:
            name = f"HOIST__{key.strip('_.').replace('.', '_')}{next(_COUNTER)}"
            assign = ast.Assign(targets=[ast.Name(id=name, ctx=ast.Store())], value=node)
            ast.copy_location(assign, node)
            ast.fix_missing_locations(assign)
            self.pre.append(assign)
            return ast.copy_location(ast.Name(id=name, ctx=ast.Load()), node)
        return node


def _hoist(stmt: ast.stmt, helpers, stack) -> List[ast.stmt]:
    """Helper calls buried in the expressions of a simple statement (or an if-test) -> preceding assignments."""
    if isinstance(stmt, (ast.Assign, ast.AugAssign, ast.AnnAssign, ast.Expr, ast.Return)):
        call, _kind = _helper_call(stmt)
        keep = call if call is not None and helper_key(call, helpers) is not None else None
        hoist = _Hoist(helpers, stack, keep)
        for field, value in list(ast.iter_fields(stmt)):
            if isinstance(value, ast.expr):
                setattr(stmt, field, hoist.visit(value))
            elif isinstance(value, list):
                setattr(stmt, field, [hoist.visit(v) if isinstance(v, ast.expr) else v for v in value])
        return hoist.pre
    if isinstance(stmt, ast.If):
        hoist = _Hoist(helpers, stack, None)
        stmt.test = hoist.visit(stmt.test)
        return hoist.pre
    return []


def _eager_generator(func: ast.FunctionDef) -> Optional[ast.FunctionDef]:
    """A private generator whose yields are plain statements is, for every static fact the rules look at, the function
    that collects what it yields in a list and returns the list (``yield e`` -> ``ACC.append(e)``, ``yield from e`` ->
    ``ACC.extend(e)``, bare ``return`` -> ``return ACC``).  Consumers (``list(g())``, ``tuple(g())``, ``for x in g()``,
    comprehensions) iterate that list.  Returns the rewritten copy, or None when the function is not of that shape."""
    yields = [n for n in ast.walk(func) if isinstance(n, (ast.Yield, ast.YieldFrom))]
    if not yields:
        return None
    clone = copy.deepcopy(func)
    acc = f"ACC__{func.name.strip('_')}"
    ok = [True]

    class T(ast.NodeTransformer):
        def visit_FunctionDef(self, node):
            if node is clone:
                return self.generic_visit(node)
            ok[0] = False  # nested function: leave alone
            return node

        visit_Lambda = lambda self, node: node  # noqa: E731

        def visit_Expr(self, node):
            value = node.value
            if isinstance(value, ast.Yield):
                call = ast.Call(func=ast.Attribute(value=ast.Name(id=acc, ctx=ast.Load()), attr="append", ctx=ast.Load()),
                                args=[value.value if value.value is not None else ast.Constant(value=None)], keywords=[])
                return ast.copy_location(ast.Expr(value=call), node)
            if isinstance(value, ast.YieldFrom):
                call = ast.Call(func=ast.Attribute(value=ast.Name(id=acc, ctx=ast.Load()), attr="extend", ctx=ast.Load()),
                                args=[value.value], keywords=[])
                return ast.copy_location(ast.Expr(value=call), node)
            return node

        def visit_Return(self, node):
            if node.value is not None:
                ok[0] = False
                return node
            return ast.copy_location(ast.Return(value=ast.Name(id=acc, ctx=ast.Load())), node)

    clone = T().visit(clone)
    if not ok[0] or any(isinstance(n, (ast.Yield, ast.YieldFrom)) for n in ast.walk(clone)):
        return None  # a yield used as an expression (x = yield ...) or something else outside the shape
    body = clone.body
    start = 1 if body and isinstance(body[0], ast.Expr) and isinstance(getattr(body[0], "value", None), ast.Constant) \
        and isinstance(body[0].value.value, str) else 0
    init = ast.Assign(targets=[ast.Name(id=acc, ctx=ast.Store())], value=ast.List(elts=[], ctx=ast.Load()))
    final = ast.Return(value=ast.Name(id=acc, ctx=ast.Load()))
    ast.copy_location(init, clone)
    ast.copy_location(final, body[-1] if body else clone)
    clone.body = body[:start] + [init] + body[start:] + [final]
    clone.returns = None
    ast.fix_missing_locations(clone)
    return clone


def inlinable_helpers(tree: ast.Module) -> Dict[str, ast.FunctionDef]:
    out = {}
    for node in tree.body:
        if isinstance(node, ast.FunctionDef) and node.name.startswith("_") and not node.name.startswith("__"):
            eager = _eager_generator(node)
            if eager is not None:
                node = eager
            if not _has_bad_constructs(node) and _returns_in_tail_position(node.body):
                out[node.name] = node
    # methods of private module-level classes (records with a parse / restore / build method)
    seen_names: Dict[str, int] = {}
    for node in tree.body:
        if isinstance(node, ast.ClassDef) and node.name.startswith("_"):
            for item in node.body:
                if isinstance(item, ast.FunctionDef) and not item.name.startswith("__"):
                    seen_names[item.name] = seen_names.get(item.name, 0) + 1
    for node in tree.body:
        if not (isinstance(node, ast.ClassDef) and node.name.startswith("_")):
            continue
        for item in node.body:
            if not isinstance(item, ast.FunctionDef) or item.name.startswith("__"):
                continue
            kind = _method_kind(item)
            others = [d for d in item.decorator_list if not (isinstance(d, ast.Name) and d.id in ("classmethod", "staticmethod"))]
            if others or not item.args.args and kind != "staticmethod":
                continue
            clone = copy.deepcopy(item)
            clone.decorator_list = []
            eager = _eager_generator(clone)
            if eager is not None:
                clone = eager
            if kind == "classmethod":
                first = clone.args.args.pop(0).arg
                clone = _Substitute({first: node.name}).visit(clone)
            if _has_bad_constructs(clone) or not _returns_in_tail_position(clone.body):
                continue
            clone._method_kind = kind  # type: ignore[attr-defined]
            clone._owner = node.name  # type: ignore[attr-defined]
            ast.fix_missing_locations(clone)
            out[f"{node.name}.{item.name}"] = clone
            if kind == "instance" and seen_names.get(item.name) == 1:
                out["." + item.name] = clone
    return out


class _Substitute(ast.NodeTransformer):
    """Replace loads of a name by another name (``cls`` -> the class it is bound to)."""

    def __init__(self, mapping: Dict[str, str]):
        self.mapping = mapping

    def visit_Name(self, node):
        if node.id in self.mapping and isinstance(node.ctx, ast.Load):
            return ast.copy_location(ast.Name(id=self.mapping[node.id], ctx=ast.Load()), node)
        return node


def inline_block(stmts: List[ast.stmt], helpers, stack, used: Set[str], depth: int) -> List[ast.stmt]:
    out: List[ast.stmt] = []
    for stmt in stmts:
        if depth < MAX_DEPTH:
            hoisted_pre = _hoist(stmt, helpers, stack)
            if hoisted_pre:
                out.extend(inline_block(hoisted_pre, helpers, stack, used, depth))
        call, kind = _helper_call(stmt)
        helper = None
        key = helper_key(call, helpers) if call is not None else None
        if key is not None and key not in stack and depth < MAX_DEPTH:
            helper = helpers[key]
        if helper is not None:
            suffix = f"__{helper.name.strip('_')}{next(_COUNTER)}"
            bind_call = call
            if getattr(helper, "_method_kind", "") == "instance":
                # obj.m(a, b)  ==  m(obj, a, b)
                bind_call = ast.Call(func=call.func, args=[call.func.value] + list(call.args), keywords=call.keywords)
                ast.copy_location(bind_call, call)
            binding = _bind_arguments(helper, bind_call, suffix)
            if binding is not None:
                result_name = "RET" + suffix
                body = copy.deepcopy(helper.body)
                if body and isinstance(body[0], ast.Expr) and isinstance(getattr(body[0], "value", None), ast.Constant) \
                        and isinstance(body[0].value.value, str):
                    body = body[1:]  # docstring
                renamer = _Rename(_locals(helper), suffix)
                body = [renamer.visit(s) for s in body]

                def make_result(ret, _stmt=stmt, _kind=kind, _name=result_name):
                    value = ret.value if ret is not None and ret.value is not None else ast.Constant(value=None)
                    where = ret if ret is not None else _stmt
                    if _kind == "return":
                        new = ast.Return(value=value)
                    elif _kind == "assign":
                        new = ast.Assign(targets=copy.deepcopy(_stmt.targets), value=value)
                    else:
                        new = ast.Expr(value=value)
                    ast.copy_location(new, where)
                    return [new]

                body = _convert_returns(body, make_result)
                body = inline_block(body, helpers, stack | {helper.name, key}, used, depth + 1)
                for node in binding + body:
                    for sub in ast.walk(node):
                        sub._inlined_from = helper.name  # type: ignore[attr-defined]
                out.extend(binding + body)
                used.add(helper.name if not hasattr(helper, "_owner") else f"{helper._owner}.{helper.name}")
                continue
        # ``for x in _helper(args):`` -> hoist the (inlined) call in front of the loop
        if isinstance(stmt, (ast.For,)) and isinstance(stmt.iter, ast.Call) and helper_key(stmt.iter, helpers) is not None \
                and helper_key(stmt.iter, helpers) not in stack and depth < MAX_DEPTH:
            tmp_name = f"ITER__{helper_key(stmt.iter, helpers).strip('_.').replace('.', '_')}{next(_COUNTER)}"
            hoisted = ast.Assign(targets=[ast.Name(id=tmp_name, ctx=ast.Store())], value=stmt.iter)
            ast.copy_location(hoisted, stmt)
            pre = inline_block([hoisted], helpers, stack, used, depth)
            if not (len(pre) == 1 and pre[0] is hoisted):
                stmt.iter = ast.copy_location(ast.Name(id=tmp_name, ctx=ast.Load()), stmt.iter)
                out.extend(pre)
        # recurse into compound statements
        for field in ("body", "orelse", "finalbody"):
            block = getattr(stmt, field, None)
            if isinstance(block, list) and block and isinstance(block[0], ast.stmt):
                setattr(stmt, field, inline_block(block, helpers, stack, used, depth))
        if isinstance(stmt, ast.Try):
            for handler in stmt.handlers:
                handler.body = inline_block(handler.body, helpers, stack, used, depth)
        out.append(stmt)
    return out


def inline_function(func: ast.FunctionDef, helpers: Dict[str, ast.FunctionDef]):
    """Returns (new FunctionDef or the original, set of helper names that were inlined)."""
    nested = {}
    for node in func.body:
        if isinstance(node, ast.FunctionDef) and not _has_bad_constructs(node) and _returns_in_tail_position(node.body):
            nested[node.name] = node  # a closure defined at the top level of this function and called in it
    if nested:
        rebound = {n.id for n in ast.walk(func) if isinstance(n, ast.Name) and isinstance(n.ctx, ast.Store)}
        nested = {k: v for k, v in nested.items() if k not in rebound}
        helpers = {**helpers, **nested}
    if not helpers:
        return func, set()
    if not any(isinstance(n, ast.Call) and helper_key(n, helpers) is not None for n in ast.walk(func)):
        return func, set()
    clone = copy.deepcopy(func)
    used: Set[str] = set()
    clone.body = inline_block(clone.body, helpers, {func.name}, used, 0)
    if not used:
        return func, set()
    ast.fix_missing_locations(clone)
    return clone, used
