"""Property -> rules (DESIGN.md section 4).  Single source of truth for the CLI,
the MANIFEST generator and the self-validation."""
from __future__ import annotations

from typing import Callable, Dict, Optional

from .rules import (alias, align, anchored, cmp, construct, dispatch, divinv, flow, generic, keys, ops, opt, pyx, reg, repres, sig,
                    small, structure, wrappers)

def _cached(key, fn):
    def run(ctx):
        cache = ctx.__dict__.setdefault("_rule_cache", {})
        if key not in cache:
            cache[key] = fn(ctx)
        return cache[key]

    return run


RULES: Dict[str, Callable] = {
    "R-SIG": _cached("R-SIG", sig.run),
    "R-REG": _cached("R-REG", reg.run),
    "R-DISPATCH": _cached("R-DISPATCH", dispatch.run),
    "R-OPS": _cached("R-OPS", ops.run),
    "R-OPT-TABLE": _cached("R-OPT-TABLE", opt.run_table),
    "R-OPT-LAYERS": _cached("R-OPT-LAYERS", opt.run_layers),
    "R-OPT-PAIRING": _cached("R-OPT-PAIRING", opt.run_pairing),
    "R-OPT-PINNED": _cached("R-OPT-PINNED", opt.run_pinned),
    "R-ALIGN": _cached("R-ALIGN", align.run),
    "R-ALIAS": _cached("R-ALIAS", alias.run),
    "R-KEYS": _cached("R-KEYS", keys.run),
    "R-CAST": _cached("R-CAST", keys.run_cast),
    "R-CMP": _cached("R-CMP", cmp.run),
    "R-FLOW": _cached("R-FLOW", flow.run_flow),
    "R-UNSIGNED": _cached("R-UNSIGNED", flow.run_unsigned),
    "R-LAYOUT": _cached("R-LAYOUT", flow.run_layout),
    "R-LEAD": _cached("R-LEAD", structure.run_lead),
    "R-DIVGUARD": _cached("R-DIVGUARD", anchored.run_divguard),
    "R-SETDIM": _cached("R-SETDIM", anchored.run_setdim),
    "R-CLEAN": _cached("R-CLEAN", anchored.run_clean),
    "R-POWER": _cached("R-POWER", anchored.run_power),
    "R-CARRIER": _cached("R-CARRIER", anchored.run_carrier),
    "R-PRODAXES": _cached("R-PRODAXES", anchored.run_prodaxes),
    "R-RANKSEL": _cached("R-RANKSEL", anchored.run_ranksel),
    "R-DIVINV": _cached("R-DIVINV", divinv.run),
    "R-MEMORDER": _cached("R-MEMORDER", generic.run_memorder),
    "R-BISECT": _cached("R-BISECT", generic.run_bisect),
    "R-SIGPOS": _cached("R-SIGPOS", generic.run_sigpos),
    "R-NAMEPATHS": _cached("R-NAMEPATHS", generic.run_namepaths),
    "R-COLPERM": _cached("R-COLPERM", generic.run_colperm),
    "R-DEFAULTS": _cached("R-DEFAULTS", generic.run_defaults),
    "R-DTYPEKW": _cached("R-DTYPEKW", generic.run_dtypekw),
    "R-KEYCLASS": _cached("R-KEYCLASS", generic.run_keyclass),
    "R-REGISTRAR": _cached("R-REGISTRAR", anchored.run_registrar),
    "R-OUTER": _cached("R-OUTER", anchored.run_outer),
    "R-NONE": _cached("R-NONE", anchored.run_none),
    "R-CALLTAIL": _cached("R-CALLTAIL", anchored.run_calltail),
    "R-BINDEX": _cached("R-BINDEX", anchored.run_bindex),
    "R-EXPDTYPE": _cached("R-EXPDTYPE", construct.run_expdtype),
    "R-GRAD": _cached("R-GRAD", structure.run_grad),
    "R-ALIGNFN": _cached("R-ALIGNFN", structure.run_alignfn),
    "R-NAMES": _cached("R-NAMES", construct.run_names),
    "R-GETITEM": _cached("R-GETITEM", construct.run_getitem),
    "R-DTYPE": _cached("R-DTYPE", construct.run_dtype),
    "R-PAIR": _cached("R-PAIR", construct.run_pair),
    "R-COLIDX": _cached("R-COLIDX", construct.run_colidx),
    "R-TERMZIP": _cached("R-TERMZIP", construct.run_termzip),
    "R-DELEGATE": _cached("R-DELEGATE", wrappers.run_delegate),
    "R-ORDER": _cached("R-ORDER", wrappers.run_order),
    "R-FWD": _cached("R-FWD", wrappers.run_fwd),
    "R-TWIN": _cached("R-TWIN", wrappers.run_twin),
    "R-CONST": _cached("R-CONST", small.run_const),
    "R-STABLE": _cached("R-STABLE", small.run_stable),
    "R-GUARDS": _cached("R-GUARDS", small.run_guards),
    "R-GLEX": _cached("R-GLEX", small.run_glex),
    "R-PYX-DISCARD": _cached("R-PYX-DISCARD", pyx.run_discarded),
    "R-PYX-DTYPE": _cached("R-PYX-DTYPE", pyx.run_dtypes),
    "R-PYX-MUL": _cached("R-PYX-MUL", pyx.run_multiply),
    "R-CODEC": _cached("R-CODEC", repres.run_codec),
    "R-FINAL": _cached("R-FINAL", repres.run_final),
    "R-REDUCE": _cached("R-REDUCE", repres.run_reduce),
    "R-HEADER": _cached("R-HEADER", repres.run_header),
    "R-VALUES": _cached("R-VALUES", repres.run_values),
    "R-TERMS": _cached("R-TERMS", repres.run_terms),
}


class Use:
    def __init__(self, rule: str, scoped: bool = False, only: Optional[Callable] = None,
                 only_ob: Optional[Callable] = None, clause: str = ""):
        self.rule = rule
        self.scoped = scoped  # keep only findings inside the property's call-graph scope
        self.only = only
        self.only_ob = only_ob
        self.clause = clause


def S(rule, clause="", only=None):
    return Use(rule, scoped=True, clause=clause, only=only)


def G(rule, clause="", only=None):
    return Use(rule, scoped=False, clause=clause, only=only)


def in_files(*parts):
    return lambda f: any(part in f.relpath for part in parts)


def in_funcs(*names):
    return lambda f: f.function.split(".")[-1] in names


def msg(*subs):
    return lambda f: any(sub in f.message or sub in f.construct for sub in subs)


def no_msg(*subs):
    return lambda f: not any(sub in f.message or sub in f.construct for sub in subs)


COMBINING = msg("are combined but dtype")


def _has_method_spelling(f):
    import numpy

    return hasattr(numpy.ndarray, f.function.split(".")[-1])


HAS_METHOD_SPELLING = _has_method_spelling
ORDERING_FUNCS = in_funcs("greater", "greater_equal", "less", "less_equal", "maximum", "minimum")


PLAN: Dict[str, dict] = {
    "C01": {
        "uses": [
            S("R-DELEGATE", "add/subtract/negative/positive dispatch the numpy function they are registered for"),
            S("R-ORDER", "operands of non-commutative delegates in parameter order"),
            S("R-ALIGN", "operands are aligned before columns are combined; names aligned before exponent rows are added"),
            S("R-KEYS", "every key of a result buffer is written before the buffer escapes"),
            G("R-PYX-MUL", "products: set on first sight of a key, accumulate afterwards; key encoder width"),
            G("R-OPT-PINNED", "alignment pins the retain flags, so aligned operands keep one layout under every option setting", only=in_files("numpoly/align.py")),
            S("R-DTYPE", "result dtype of a combination depends on all operands", only=COMBINING),
            G("R-ALIGNFN", "align_exponents rebuilds every operand (consumers read .values of fresh, contiguous results)", only=msg("operand not rebuilt", "align_shape: broadcast")),
            G("R-CAST", "every operation builds its result through polynomial_from_attributes: cast before the raw write, raw writer only for dtypes it implements"),
            G("R-POWER", "scalar power = one multiplied by the base exactly n times"),
            G("R-VALUES", "operands that are strided views are read in the right element order"),
            G("R-CLEAN", "the clean-up after each operation drops exactly the all-zero non-constant terms", only=in_funcs("remove_redundant_coefficients")),
            S("R-BISECT", "no bisection on a sequence that was sorted with a key function (name / exponent look-ups are by equality)"),
            S("R-NAMEPATHS", "all return paths of a wrapper keep the operands' names (no names-dropping fast path)"),
            S("R-DTYPEKW", "a dtype= keyword on data computed from several operands is not a single operand's dtype"),
        ],
        "explanation": "Structural clauses of exact ring arithmetic: (1) add/subtract/negative/positive hand the "
                       "coefficient storage to the numpy function they are registered for, operands in parameter order; "
                       "(2) on every path, columns/keys/exponent rows of two operands are combined only after both came out of "
                       "one align_* call, and alignment pins retain_names/retain_coefficients; (3) every numpoly.ndpoly(...) "
                       "allocation has all keys written (unmasked) before it is used as a whole; (4) the C multiplier sets a key "
                       "on first sight and accumulates afterwards.",
        "not_decided": "exactness of the sums/products/powers themselves, broadcasting, array exponents of ** "
                       "(value- and shape-dependent; no sound static bound)",
    },
    "C02": {
        "uses": [
            G("R-GUARDS", "TypeError for unknown / doubly supplied names dominates evaluation"),
            G("R-TWIN", "the polynomial and the numeric branch of the evaluation loop receive the same operands"),
            G("R-CARRIER", "the broadcast carrier promotes narrow argument dtypes (value independent of the carrying type)"),
            G("R-OUTER", "outer (used for coefficient x term) flattens both operands like numpy.outer"),
            G("R-CALLTAIL", "non-constant results are re-aligned with the evaluated polynomial's indeterminates"),
            G("R-OPT-PINNED", "alignment keeps one layout under every option setting (operands with different name sets)", only=in_files("numpoly/align.py")),
            G("R-UNSIGNED", "no caller value meets an unsanitised uint32 exponent (value independent of the argument's type)", only=in_funcs("call")),
            G("R-NAMES", "the indeterminates handed to the evaluation loop (iteration over poly.indeterminants) keep their names", only=in_files("numpoly/baseclass.py", "poly_function/call.py", "numpoly/dispatch.py")),
            G("R-CAST", "numbers turned into constant polynomials during partial evaluation are written whatever numeric type carries them (raw writer only for dtypes it implements)"),
            G("R-TERMZIP", "the evaluation loop pairs each exponent row with its own coefficient", only=in_funcs("call")),
            G("R-ALIAS", "call() does not write into the caller's args / kwargs containers (a reused kwargs dict must give the same evaluation twice)", only=in_funcs("call")),
        ],
        "explanation": "call(): branches raising TypeError for an unknown and for a doubly supplied indeterminate exist and every "
                       "path into the evaluation loop passed the unknown-name guard; numpoly.outer and numpy.outer receive the same "
                       "operands in the same order; the exponent handed to ** is sanitised with int() so the value cannot depend on the "
                       "numeric type carrying the argument.",
        "not_decided": "the value of the evaluation, staged vs. one-shot evaluation, output shape and dtype promotion of "
                       "narrow argument types",
    },
    "C03": {
        "uses": [
            G("R-GUARDS", "the five validations of postprocess_attributes dominate every normal return"),
            G("R-CODEC", "key <-> exponent codec uses one constant with opposite signs"),
            G("R-FINAL", "metadata set in __new__ equals the set copied in __array_finalize__"),
            G("R-NAMES", "constructors fed with raw storage / exponent rows receive the input's names"),
            G("R-PAIR", "exponents and coefficients are paired by one traversal order", only=no_msg("monoms")),
            G("R-OPT-LAYERS", "retain_* options only replace an omitted (None) argument", only=msg("'retain_")),
            G("R-CLEAN", "exactly the all-zero non-constant terms and the unused names are dropped", only=in_funcs("remove_redundant_coefficients", "remove_redundant_names")),
            G("R-CAST", "every coefficient array is cast to the coefficient dtype before the raw write"),
            G("R-VALUES", "the raw structured view of a strided / Fortran-ordered polynomial holds the same elements as its coefficients"),
            G("R-TERMZIP", "keys, exponent rows and coefficients of one polynomial are paired term by term in one order"),
            S("R-MEMORDER", "flattening / reshaping keeps numpy's logical element order (no literal memory-dependent order)"),
            S("R-COLPERM", "re-ordered names and their exponent columns are permuted together"),
            G("R-TERMS", "the term accessors range over every key; todict keeps every term and the coefficient arrays themselves"),
            G("R-OPT-LAYERS", "the retain flags are resolved from the options before they decide what is dropped", only=msg("O12")),
            S("R-KEYCLASS", "no character-class predicate on storage keys / field names (keys are arbitrary code points)"),
        ],
        "explanation": "Construction goes through validated constructors: every normal return of postprocess_attributes passed the "
                       "2-d / length / name-count / duplicate-name / duplicate-exponent checks; encode/decode of storage keys use "
                       "KEY_OFFSET with opposite signs; views and copies carry all metadata; names are forwarded wherever raw storage "
                       "or exponent rows are re-wrapped; dict / sympy / structured input pair exponents with coefficients by one "
                       "traversal; an explicit retain flag is never overridden by the global option.",
        "not_decided": "equality of a rebuilt polynomial with the original; exactly which terms are dropped (value-dependent)",
    },
    "C04": {
        "uses": [
            G("R-ALIGNFN", "results in argument order; unions range over all arguments; names in integer index order", only=no_msg("operand not rebuilt")),
            G("R-OPT-PINNED", "aligned layout pinned independently of the global options", only=in_files("numpoly/align.py")),
            G("R-ALIAS", "no argument is modified", only=in_files("numpoly/align.py")),
            G("R-NAMES", "rebuilt operands keep their names", only=in_files("numpoly/align.py")),
            G("R-OPT-TABLE", "the options the alignment reads (default_varname, retain_*) cannot be left half-set by a rejected or interrupted option call"),
            G("R-CAST", "aligned operands are rebuilt through polynomial_from_attributes: cast before the raw write, raw writer only for dtypes it implements"),
            S("R-BISECT", "no bisection on a sequence that was sorted with a key function (name / exponent look-ups are by equality)"),
            S("R-COLPERM", "re-ordered names and their exponent columns are permuted together"),
            G("R-TERMS", "alignment reads every term of its arguments (coefficients / exponents range over all keys)", only=in_funcs("coefficients", "exponents")),
            S("R-KEYCLASS", "no character-class predicate on storage keys / field names (keys are arbitrary code points)"),
        ],
        "explanation": "Each align_* function returns tuple(list of per-argument images) in argument order where slot i is only "
                       "replaced by a value computed from argument i; the common shape / names / exponents are computed over all "
                       "arguments, names sorted by int(suffix); the constructions pin retain_coefficients/retain_names=True; no write "
                       "reaches storage that may alias an argument.",
        "not_decided": "that the returned polynomials are mathematically equal to the inputs; idempotence on values",
    },
    "C05": {
        "uses": [
            G("R-OPS", "/, %, divmod and reflected forms route to poly_divide/poly_remainder/poly_divmod, components 0/1", only=lambda f: any(k in f.function for k in ("div", "mod", "remainder"))),
            S("R-ALIGN", "dividend and divisor are aligned on entry and after every reduction step"),
            G("R-UNSIGNED", "the exponent subtraction is guarded by the candidate selection", only=in_funcs("poly_divmod", "get_division_candidate")),
            G("R-ALIGNFN", "dividend and divisor are broadcast against each other with numpy's rules", only=msg("align_shape: broadcast")),
            S("R-NAMES", "the masked quotient / subtrahend terms built through where() keep the operands' names"),
            G("R-OPT-PINNED", "alignment keeps one layout under every option setting (operands with different name sets)", only=in_files("numpoly/align.py")),
            G("R-DIVINV", "loop invariant dividend == quotient*divisor + remainder: base, inductive step (loop state opaque, ring laws), returned pair, exact-zero store; the step cancels the dividend term it was computed from"),
        ],
        "explanation": "Third sentence in full (operator routing with operand order, poly_divide/poly_remainder = components 0/1 of "
                       "poly_divmod); inside the loop get_division_candidate only ever receives operands that came out of one "
                       "align_polynomials call (on entry and after every step); dividend.exponents - divisor.exponents is only formed "
                       "for pairs get_division_candidate selected past its 'exponent1 < exponent2' skip. The identity "
                       "dividend == q*divisor + r is decided as *partial correctness* by a loop invariant computed from the source "
                       "(R-DIVINV): with the loop state (quotient, running dividend, divisor) opaque, one iteration changes "
                       "quotient*divisor + remainder by the polynomial 0 under the commutative-ring laws (C01), where(m,a,0) = m*a for a "
                       "0/1 mask and 'alignment is representation only' (C04); the state before the loop satisfies it, the function "
                       "returns that state in the order (quotient, remainder), the 0-d branch delegates component-wise with operands in "
                       "order, and the only in-place write is the exact-zero store into the key of the cancelled term under the step's "
                       "mask. The step cancels the term it was computed from: candidate = dividend coefficient[idx1] / divisor "
                       "coefficient[idx2] of the returned indices, include implies that dividend coefficient is non-zero, and the "
                       "monomial is indeterminants ** (dividend row idx1 - divisor row idx2).",
        "not_decided": "termination (needs a ranking argument over runtime coefficient values; the pinned code does loop forever "
                       "for some multivariate divisors; recorded in DESIGN.md), floating-point rounding of the identity, that q is "
                       "the true quotient for constant divisors and r has lower degree (follow from termination + cancellation, "
                       "not decided)",
    },
    "C06": {
        "uses": [
            G("R-UNSIGNED", "differentiation does not rely on clean-up to discard a wrapped unsigned exponent", only=in_funcs("derivative")),
            G("R-COLIDX", "the column index comes from the names of the polynomial whose exponent columns are indexed"),
            G("R-LAYOUT", "positional column indices only on polynomials whose names layout is option-independent"),
            G("R-GRAD", "gradient stacks derivative over all names in order; hessian = gradient of gradient"),
            G("R-ALIGNFN", "the re-alignment after each step keeps the indeterminates in integer index order", only=msg("sorted by int", "sort key")),
            S("R-NAMES", "gradient/hessian join the partial derivatives under the polynomial's own names"),
            G("R-GETITEM", "an indeterminate obtained by indexing is a single monomial (elements are not built with retain_coefficients=True)", only=msg("retain_coefficients")),
            S("R-ALIGN", "derivative re-aligns with the reference after each variable"),
            G("R-OPT-PINNED", "alignment keeps one layout under every option setting (operands with different name sets)", only=in_files("numpoly/align.py")),
            S("R-BISECT", "no bisection on a sequence that was sorted with a key function (name / exponent look-ups are by equality)"),
            S("R-COLPERM", "re-ordered names and their exponent columns are permuted together"),
            G("R-CLEAN", "identifying a differentiation variable given as a polynomial relies on remove_redundant_names keeping exactly the used names (one-name fall-back only when none is used)", only=in_funcs("remove_redundant_names")),
        ],
        "explanation": "derivative: the decrement of the uint32 exponent column is applied only to rows filtered by 'column > 0' "
                       "(so it holds under every retain_* setting); the differentiated column index is looked up in the names of the "
                       "same polynomial whose exponents it indexes; gradient = concatenate([derivative(poly, n)[newaxis] for n in "
                       "poly.names], axis 0); hessian = gradient(gradient(poly)).",
        "not_decided": "that the result is the formal partial derivative (linearity, product rule, values)",
    },
    "C07": {
        "uses": [
            G("R-CMP", "one template for the six comparison functions, maximum/minimum and the equality folds"),
            G("R-OPT-PAIRING", "sort_graded/sort_reverse paired with graded=/reverse=", only=ORDERING_FUNCS),
            G("R-STABLE", "the monomial order itself is platform independent"),
            S("R-ORDER", "operands of the comparison ufuncs in parameter order"),
            S("R-ALIGN", "columns compared by position only after alignment"),
            S("R-DTYPE", "maximum/minimum select between the operands in a dtype depending on both", only=COMBINING),
            G("R-OPT-TABLE", "the sort options the order depends on cannot be left half-set or unrestored by a rejected / interrupted option call"),
            G("R-OPT-PINNED", "alignment keeps one layout under every option setting (operands with different name sets)", only=in_files("numpoly/align.py")),
        ],
        "explanation": "greater/greater_equal/less/less_equal walk the aligned terms in ascending glexsort(sort_graded, "
                       "sort_reverse) order without break, overwrite the verdict only where the two coefficients differ, with the "
                       "ufunc each is registered for and operands in order (same ufunc for the initial verdict); maximum/minimum use "
                       "> / < and where(mask, x1, x2); equal/isclose fold all columns with &= from ones, not_equal with |=, allclose "
                       "returns False on the first failing column.",
        "not_decided": "trichotomy/transitivity as theorems about values; that the order equals the documented one for every input",
    },
    "C08": {
        "uses": [
            G("R-REG", "numpy.f(poly) and numpoly.f(poly) execute the same def; reduce/accumulate mappings"),
            G("R-DISPATCH", "unsupported callables / ufunc methods raise FeatureNotSupported; arguments forwarded unchanged"),
            G("R-OPS", "operators and method spellings forward to the same functions with all parameters"),
            G("R-REGISTRAR", "the registration decorators enter every target into every table"),
            S("R-FWD", "registered wrappers forward the value/shape parameters they share with numpy"),
            G("R-NAMES", "functions that also exist as ndarray methods/attributes (transpose/.T, reshape, ravel, ...) keep the names like the method spelling does", only=HAS_METHOD_SPELLING),
            G("R-SIGPOS", "positional calls through numpy bind to the same parameters as the keyword / numpoly spelling"),
            G("R-NAMEPATHS", "every spelling returns the same names and dtype whichever return path the values select (no names-dropping fast path)"),
        ],
        "explanation": "Positive half by identity of callee: every reachable registry entry T->F satisfies numpoly.<name(T)> is F, "
                       "ufuncs only reachable through the ufunc table; REDUCE/ACCUMULATE mappings agree with numpy's definition of "
                       "the reductions; operators/methods forward to the documented function with every named parameter under its own "
                       "keyword. Negative half by closure of __array_ufunc__/__array_function__: every path forwards (*inputs, "
                       "**kwargs) to the registry entry of a positively looked-up key (reduce/accumulate keys only from the mapping "
                       "dicts) or raises FeatureNotSupported.",
        "not_decided": "nothing structural is left; equality of results follows from identity of the executed function "
                       "(assumption A-DISPATCH), not from comparing values",
    },
    "C09": {
        "uses": [
            S("R-SIG", "every numpy call binds"),
            S("R-DELEGATE", "wrapper delegates to the numpy function it mirrors"),
            S("R-FWD", "shape/axis/index parameters used and forwarded under their own names"),
            S("R-NAMES", "names preserved wherever raw storage is re-wrapped"),
            G("R-GETITEM", "the same index applied to every column"),
            G("R-VALUES", "the structured storage handed to numpy honours the strides of views"),
            S("R-ALIGN", "joining functions align first"),
            S("R-NONE", "shape / axis / index arguments are never mistaken for 'omitted' when they are 0 or ()"),
            G("R-OPT-PINNED", "alignment keeps one layout under every option setting (operands with different name sets)", only=in_files("numpoly/align.py")),
            S("R-DTYPE", "joined / selected results take a dtype depending on all operands", only=COMBINING),
            S("R-MEMORDER", "flattening / reshaping keeps numpy's logical element order (no literal memory-dependent order)"),
            S("R-SIGPOS", "positional arguments bind as in numpy's signature"),
            S("R-NAMEPATHS", "all return paths of a wrapper keep the operands' names (no names-dropping fast path)"),
            S("R-DEFAULTS", "shared value/shape parameters have numpy's defaults (a call without them does what numpy does)"),
        ],
        "explanation": "Each shape function hands the raw structured storage to the numpy function it is registered for, with all "
                       "shape/axis/index parameters used and not cross-wired, every call signature-valid for the installed numpy, and "
                       "re-wraps the result with the input's names; joining functions combine columns only after alignment; "
                       "__getitem__ applies the caller's index per coefficient column with self.exponents/self.names; where() takes "
                       "its dtype from both operands.",
        "not_decided": "that numpy's result on the raw storage places each element where claimed (numpy's semantics on structured "
                       "arrays, strides of views)",
    },
    "C10": {
        "uses": [
            S("R-DELEGATE", "linear reductions dispatch their namesake per column"),
            S("R-FWD", "axis/keepdims/n/prepend/append used and forwarded"),
            S("R-ALIGN", "diff/inner/outer combine columns only after alignment"),
            S("R-DTYPE", "joined buffers take a dtype depending on all operands", only=COMBINING),
            S("R-NONE", "axis / n / prepend / append are never mistaken for 'omitted' when they are 0"),
            G("R-OPT-PINNED", "alignment keeps one layout under every option setting (operands with different name sets)", only=in_files("numpoly/align.py")),
            S("R-ORDER", "operand order of non-commutative delegates"),
            S("R-SIG", "prod/matmul reach a signature-valid reshape"),
            G("R-REG", "add.reduce / add.accumulate / method spellings reach the same function", only=lambda f: any(n in f.function + f.message + f.construct for n in ("sum", "cumsum", "mean", "prod", "diff", "inner", "outer", "matmul", "det", "REDUCE_MAPPINGS", "ACCUMULATE_MAPPINGS"))),
            S("R-KEYS", "result buffers are fully written"),
            G("R-PRODAXES", "prod over an axis tuple reduces and re-inserts each axis in one traversal"),
            G("R-OUTER", "outer flattens both operands like numpy.outer"),
            S("R-NAMES", "matmul / the joiners re-wrap every operand's storage with that operand's own names"),
            G("R-OPS", "the reduction methods (sum/cumsum/mean/prod) forward every parameter to the function spelling", only=in_funcs("sum", "cumsum", "mean", "prod", "__matmul__", "__rmatmul__")),
            S("R-MEMORDER", "flattening / reshaping keeps numpy's logical element order (no literal memory-dependent order)"),
            S("R-SIGPOS", "positional arguments bind as in numpy's signature"),
            S("R-DEFAULTS", "shared value/shape parameters have numpy's defaults (a call without them does what numpy does)"),
            S("R-DTYPEKW", "a dtype= keyword on data computed from several operands is not a single operand's dtype"),
        ],
        "explanation": "sum/cumsum/mean dispatch their namesake per aligned key with axis/dtype/keepdims forwarded; diff aligns a, "
                       "prepend and append in one call and writes every key; every numpy call in the call graph of the reductions "
                       "binds against the installed numpy; numpy.add.reduce / accumulate map to sum / cumsum.",
        "not_decided": "equality with exact finite sums/products; det expansion; axis-tuple handling of prod (value/shape-dependent)",
    },
    "C11": {
        "uses": [
            G("R-CONST", "numeric division with a non-constant divisor raises FeatureNotSupported on every path"),
            S("R-DELEGATE", "each mirrored function applies the numpy function it is registered for"),
            S("R-ORDER", "operand order (allclose / isclose / division are asymmetric)"),
            S("R-FWD", "value/shape parameters used"),
            S("R-SIG", "every numpy call binds"),
            G("R-ALIGNFN", "binary mirrored functions broadcast their operands like numpy (align_shape guard)", only=msg("align_shape: guard")),
            S("R-DTYPE", "selected / joined results keep numpy's promoted dtype", only=COMBINING),
            S("R-NONE", "axis / shape arguments that are 0 or () are honoured like numpy does"),
            G("R-LEAD", "argmax/argmin/amax/amin rank float coefficients exactly (the proxy holds ranks, not truncated values)", only=in_funcs("sortable_proxy")),
            G("R-PRODAXES", "prod accepts the negative axes numpy accepts (the axis is normalised before it is used as a count)", only=msg("negative axis")),
            G("R-RANKSEL", "amax/amin along an axis pair every reduced rank with its own element (inverse of the proxy permutation)"),
            S("R-MEMORDER", "flattening / reshaping keeps numpy's logical element order (no literal memory-dependent order)"),
            S("R-SIGPOS", "positional arguments bind as in numpy's signature"),
            S("R-NAMEPATHS", "all return paths of a wrapper keep the operands' names (no names-dropping fast path)"),
            S("R-DEFAULTS", "shared value/shape parameters have numpy's defaults (a call without them does what numpy does)"),
            S("R-DTYPEKW", "a dtype= keyword on data computed from several operands is not a single operand's dtype"),
            G("R-CLEAN", "the guard of the numeric division functions rests on isconstant being False exactly for a non-constant term with a non-zero coefficient", only=in_funcs("isconstant")),
        ],
        "explanation": "Last sentence in full: in true_divide/floor_divide/remainder/divmod every path to the numeric ufunc or to a "
                       "normal return passed divisor.isconstant() and the other edge raises FeatureNotSupported. Every registered "
                       "wrapper that touches coefficient storage applies the numpy function it mirrors, with asymmetric operands in "
                       "parameter order, all value/shape parameters used, and a signature-valid call.",
        "not_decided": "values, tie positions in argmax, shapes of the results on constants",
    },
    "C12": {
        "uses": [
            G("R-PYX-DISCARD", "no exception is constructed and thrown away"),
            G("R-PYX-DTYPE", "every dtype has a handler or the default raises; handler types agree"),
            G("R-KEYS", "no raw buffer escapes unwritten (including empty results)"),
            G("R-CAST", "data is cast to the buffer dtype before the raw write, writers only for dtypes they implement"),
            G("R-DTYPE", "requested dtype reaches every constructed polynomial; combined results depend on all operand dtypes"),
            G("R-CLEAN", "a result whose terms were all filtered away (or that has no element at all) keeps the shape and dtype of its inputs", only=msg("zero fall-back", "clean_attributes: dtype")),
            G("R-POWER", "the constant one that seeds a power carries the base's dtype", only=msg("dtype of the initial one")),
            S("R-MEMORDER", "flattening / reshaping keeps numpy's logical element order (no literal memory-dependent order)"),
            S("R-DTYPEKW", "a dtype= keyword on data computed from several operands is not a single operand's dtype"),
        ],
        "explanation": "The C writers' dtype switch is read from the .pyx (cannot be rebuilt here): arms, element/pointer types, "
                       "default arm; polynomial_from_attributes casts every coefficient to the buffer dtype and uses the raw writer "
                       "only under a membership test in the dtypes it implements; every numpoly.ndpoly allocation is fully written on "
                       "every path (zero-filled when no coefficient exists); polynomial/aspolynomial/compose_polynomial_array let the "
                       "dtype argument reach every returned polynomial.",
        "not_decided": "the numeric values after a cast; numpy's promotion rules; products of two operands whose promoted dtype "
                       "the C layer does not implement (known finding F9)",
    },
    "C13": {
        "uses": [
            G("R-REDUCE", "pickle state binds to the right constructor parameters"),
            G("R-FINAL", "copies/views carry all metadata"),
            G("R-HEADER", "header writer/reader agreement, empty shape of 0-d, strict decoding, layout restored"),
            G("R-CODEC", "keys written to the header decode with the same constant"),
            S("R-SIG", "loadtxt reaches a signature-valid reshape"),
            G("R-NAMES", "loadtxt restores the shape through reshape, which must keep the names", only=in_files("array_function/reshape.py", "array_function/loadtxt.py", "array_function/savetxt.py")),
            G("R-OPT-TABLE", "unpickling and loadtxt rebuild under the options in force (retain_names): an option leaked by an earlier block changes the object that comes back"),
            S("R-MEMORDER", "flattening / reshaping keeps numpy's logical element order (no literal memory-dependent order)"),
            S("R-DEFAULTS", "shared value/shape parameters have numpy's defaults (a call without them does what numpy does)"),
            G("R-OPT-LAYERS", "__reduce__ passes one retain flag and relies on the other being resolved from the options (never used while still None)", only=msg("O12")),
            S("R-KEYCLASS", "no character-class predicate on storage keys / field names (keys are arbitrary code points)"),
            S("R-NONE", "loadtxt restores the shape through reshape: an empty shape () is honoured, not treated as omitted", only=in_funcs("reshape")),
        ],
        "explanation": "__reduce__ returns polynomial_from_attributes with exponents/coefficients/names/dtype/allocation bound to the "
                       "right parameters; __array_finalize__ copies exactly the attribute set __new__ assigns; HEADER_REGEX is built "
                       "from HEADER_TEMPLATE, groups are consumed in template order, join/split separators agree, each fragment accepts "
                       "what savetxt can emit (incl. the empty shape), no lossy decoding, the (elements, terms) layout is restored before "
                       "the structured view.",
        "not_decided": "that the loaded values equal the saved ones; numpy.loadtxt's own parsing",
    },
    "C14": {
        "uses": [G("R-OPT-TABLE", "entire statement (O1-O5)")],
        "explanation": "Entire statement: global_options takes a full snapshot before the first mutation and restores exactly that "
                       "snapshot after the last mutation on every exit (the yield sits in try/finally); set_options mutates only after "
                       "all keys were validated and rejects with KeyError; get_options returns detached copies of the right table; "
                       "defaults are immutable literals; nothing but set_options writes or hands out the tables. Nested blocks follow "
                       "by induction on the nesting depth.",
        "not_decided": "nothing (all clauses are structural)",
    },
    "C15": {
        "uses": [
            G("R-OPT-LAYERS", "options are read only by their own layer; retain_* only as default of None"),
            G("R-OPT-PINNED", "layout-critical constructions pin the retain flags"),
            G("R-UNSIGNED", "differentiation does not depend on clean-up", only=in_funcs("derivative")),
            G("R-NAMES", "names never fall back to positional defaults when storage is re-wrapped"),
            G("R-LAYOUT", "derivative's column indices never meet an option-dependent names layout"),
            G("R-CALLTAIL", "partial evaluation re-aligns by name, not by position"),
            G("R-OPT-TABLE", "an option setting is in force exactly inside its with-block: no leak on exceptions, rejected calls or library-internal set_options"),
            G("R-GRAD", "gradient/hessian differentiate by name (poly.names), not by option-dependent indeterminate objects"),
            G("R-ALIGN", "operands are combined by position only after alignment: equal keys do not imply equal names once retain_names=False drops unused names"),
            S("R-BISECT", "no bisection on a sequence that was sorted with a key function (name / exponent look-ups are by equality)"),
            S("R-COLPERM", "re-ordered names and their exponent columns are permuted together"),
            G("R-GUARDS", "no option setting lets construction skip the normalisation / validation of its attributes", only=in_funcs("postprocess_attributes")),
        ],
        "explanation": "Who-may-read layering of the 12 option keys over all 33 read sites; retain_* only replace a None argument; "
                       "graded=/reverse= receive *_graded/*_reverse of the right family or the function's own parameters; "
                       "align/decompose/set_dimensions pin the retain flags; derivative's decrement is guarded independently of "
                       "retain_coefficients; re-wrapped storage always receives names (so retain_names=False cannot rename).",
        "not_decided": "value equality of results across the 2**8 settings",
    },
    "C16": {
        "uses": [
            G("R-FLOW", "display-order options influence only the iteration order; sign options only the joiners"),
            G("R-OPT-LAYERS", "display_* read only in _to_string", only=msg("'display_")),
            G("R-OPT-PAIRING", "display_graded/display_reverse paired with graded/reverse", only=in_files("array_function/array_repr.py")),
            G("R-STABLE", "term order platform independent"),
            G("R-PAIR", "sympy import pairs monoms() and coeffs() of one ordering", only=msg("monoms")),
            G("R-OPT-TABLE", "the display options in force are the ones the caller set: no partial update by a rejected call, no leak, library code restores what it changes"),
        ],
        "explanation": "_to_string: display_graded/display_reverse are only arguments of the glexsort that orders the terms, "
                       "display_inverse only guards a full reversal, the loop iterable is glexsort(all exponents) or its complete "
                       "reversal (a permutation), display_exponent/display_multiply are only concatenated into the text; the sympy "
                       "branch of polynomial() takes monoms() and coeffs() with identical ordering arguments.",
        "not_decided": "that the text parses back to the polynomial (coefficient formatting, sign elision are value-level)",
    },
    "C17": {
        "uses": [G("R-ALIAS", "entire statement for Python-level writes")],
        "explanation": "Entire statement for Python-level writes: for every store, augmented assignment, out= keyword, in-place "
                       "numpy writer, mutating method and raw C writer in all functions, on every path, the written object's "
                       "provenance may not alias a parameter other than out/dst (two-level may-alias: containers vs. elements; "
                       "aspolynomial/align_shape/align_indeterminants and numpy's view functions are alias-preserving).",
        "not_decided": "writes performed inside numpy itself on views handed to it (assumption A-NUMPY-PURE)",
    },
    "C18": {
        "uses": [G("R-STABLE", "no unstable sort primitive in the composed sort"), S("R-FWD", "graded/reverse/cross_truncation forwarded", only=in_files("numpoly/utils/", "construct/monomial.py")),
                 G("R-BINDEX", "the inverted ordering reverses rows only"),
                 G("R-GLEX", "reverse flips the key rows of the 2-D key matrix, also for a single 1-D key"),
                 G("R-OPT-TABLE", "monomial() names its indeterminates from default_varname: an option leaked by an earlier block renames them"),
                 G("R-NAMES", "the elements of a monomial array obtained by iteration keep its names", only=in_files("numpoly/baseclass.py")),
                 G("R-NONE", "bounds / dimensions / cross_truncation that are 0 are honoured, not mistaken for 'omitted'", only=in_files("numpoly/utils/", "construct/monomial.py")),
                 G("R-DIVGUARD", "cross_truncate divides by the bound only after excluding negative and zero components"),
                 G("R-OPT-PAIRING", "glexindex/monomial/bindex forward graded/reverse to their callee", only=in_files("numpoly/utils/", "construct/monomial.py"))],
        "explanation": "glexsort's second (graded) sort is stable; glexindex/bindex/monomial forward graded/reverse/"
                       "cross_truncation under their own names.",
        "not_decided": "that the index sets and norms are numerically right (cross_truncate, _glexindex are value-level)",
    },
    "C19": {
        "uses": [
            G("R-LEAD", "lead_exponent/lead_coefficient: same ascending walk, zero-initialised"),
            G("R-GUARDS", "tonumpy returns only for constants"),
            G("R-OPT-PINNED", "set_dimensions pins retain_names", only=in_funcs("set_dimensions", "decompose")),
            G("R-OPT-PAIRING", "argmax/argmin/amax/amin and sortable_proxy forward the paired sort options", only=in_funcs("sortable_proxy", "argmax", "argmin", "amax", "amin", "lead_exponent", "lead_coefficient")),
            S("R-KEYS", "set_dimensions cannot return an unwritten buffer"),
            G("R-SETDIM", "dropping trailing indeterminates keeps exactly the terms free of them"),
            G("R-CLEAN", "isconstant ignores exactly the constant term", only=in_funcs("isconstant")),
            S("R-SIG", "amax/amin reach a signature-valid reshape"),
            G("R-STABLE", "the monomial order behind the leading-term queries is platform independent"),
            G("R-TERMZIP", "decompose/todict pair each key with its own exponent row and coefficient", only=in_files("poly_function/", "baseclass.py")),
            S("R-BISECT", "no bisection on a sequence that was sorted with a key function (name / exponent look-ups are by equality)"),
            S("R-BISECT", "no bisection on a sequence that was sorted with a key function (name / exponent look-ups are by equality)"),
            S("R-COLPERM", "re-ordered names and their exponent columns are permuted together"),
            G("R-TERMS", "todict agrees with the polynomial: every term, coefficient arrays unconverted", only=in_funcs("todict")),
            G("R-VALUES", "decompose / todict read the storage of strided views in the right element order"),
        ],
        "explanation": "lead_exponent and lead_coefficient are the same ascending glexsort(graded, reverse) walk overwriting where "
                       "the coefficient is non-zero from a zero-initialised result; tonumpy raises FeatureNotSupported unless "
                       "isconstant(); sortable_proxy forwards graded/reverse to lead_exponent and glexsort alike; the ordering "
                       "functions pass sort_graded/sort_reverse; set_dimensions pins retain_names=True.",
        "not_decided": "the values returned; tie-breaking inside the proxy; which terms set_dimensions drops (mask arithmetic)",
    },
    "C20": {
        "uses": [
            G("R-CODEC", "key codec is one constant with opposite signs at encode/decode sites"),
            G("R-PYX-MUL", "the product-key builder does not narrow"),
            G("R-EXPDTYPE", "exponent matrices are never created with a coefficient dtype"),
            G("R-COLIDX", "differentiation decrements the exponent column of the variable asked for"),
            G("R-UNSIGNED", "uint32 exponents are never scaled by a run-time value without widening (silent wrap at 2**32)", only=msg("wraps silently", "numpy.uint32 exponent")),
            G("R-HEADER", "header delimiters are outside the key alphabet; decoding is strict", only=msg("delimiter", "errors=", "HEADER_TEMPLATE")),
            G("R-ALIAS", "the constructor does not shift a caller's exponent array in place", only=lambda f: f.function.endswith("__new__") or "numpoly/construct/" in f.relpath),
            S("R-BISECT", "no bisection on a sequence that was sorted with a key function (name / exponent look-ups are by equality)"),
            S("R-DEFAULTS", "shared value/shape parameters have numpy's defaults (a call without them does what numpy does)"),
            S("R-KEYCLASS", "no character-class predicate on storage keys / field names (keys are arbitrary code points)"),
        ],
        "explanation": "Keys are built as exponents + KEY_OFFSET and decoded as uint32 view - KEY_OFFSET at every site; the constant "
                       "exceeds ':' and every header delimiter; the text reader decodes strictly; the C product-key encoder's "
                       "conversion width is compared with its operand width (known finding F10: '%c' narrows).",
        "not_decided": "behaviour for concrete large exponents through every operation",
    },
}

NOT_APPLICABLE: Dict[str, str] = {}


# Clauses added after the first build round (DESIGN.md sections 12-14), appended to the explanations above.
EXTRA_EXPLANATION = {
    "C01": " (5) align_shape rebuilds coefficients with a numpy broadcast idiom; the scalar power starts from the constant one in the base's dtype and multiplies exactly n times; a result whose terms all cancel keeps the shape and dtype of its inputs. Name / exponent look-ups are by equality, never by bisection on a key-sorted sequence (R-BISECT); a dtype= keyword on data computed from both operands is not one operand's dtype (R-DTYPEKW); no return path of a wrapper re-wraps operand data without names= next to paths that keep the names (R-NAMEPATHS).",
    "C02": " The indeterminates handed to the evaluation loop (iteration over poly.indeterminants) keep the polynomial's names; a non-constant result is re-aligned by name.",
    "C03": " Exponent rows taken from an alignment result are paired with the names of that result (or of an operand of that alignment); the fall-back term of the clean-up has the shape and dtype of its input. ndpoly.coefficients / ndpoly.exponents are computed from all of self.keys and todict keeps every term with the coefficient arrays themselves (R-TERMS); no character-class predicate is applied to storage keys (R-KEYCLASS); re-ordered names and their exponent columns are permuted together (R-COLPERM); flattening keeps numpy's logical element order (R-MEMORDER); the retain flags are resolved from the options before they decide a branch (O12).",
    "C04": " align_shape rebuilds coefficients with a numpy broadcast idiom (resize/tile/reshape are known-wrong); the option state the alignment reads (default_varname, retain_*) cannot be left half-set: set_options validates every key before the first write and global_options restores in finally. The term accessors alignment reads range over every key (R-TERMS, R-KEYCLASS); the cast in front of the raw C writer yields an array of its own, so read-only inputs can be aligned (R-CAST).",
    "C06": " gradient/hessian join the partials through constructors that receive the polynomial's own names. remove_redundant_names (used to identify a differentiation variable given as a polynomial) switches one name on exactly when none is used (tri-state R-CLEAN).",
    "C07": " The term walk iterates the glexsort permutation on every path (no storage-order shortcut); maximum/minimum select through where() in a dtype depending on both operands. A vectorised equality fold does not pack both operands' columns into one array (common-dtype promotion before comparing).",
    "C08": " A function that REDUCE_MAPPINGS/ACCUMULATE_MAPPINGS map to is entered in the table __array_ufunc__ consults; functions that also exist as ndarray methods keep the names like the method does; a wrapper that calls itself recursively forwards every shared parameter. Positional arguments bind to the same parameters through numpy and through numpoly: every parameter a wrapper shares by name with the numpy signature sits at numpy's position (R-SIGPOS); return paths of one wrapper agree on names (R-NAMEPATHS).",
    "C10": " The reduction methods of ndpoly forward every parameter to the function spelling; a wrapper that calls itself recursively forwards every shared parameter. Shared parameters sit at numpy's positions with numpy's defaults (R-SIGPOS, R-DEFAULTS); flattened reductions walk the logical element order (R-MEMORDER); a dtype= keyword on a product of two operands is not one operand's dtype (R-DTYPEKW).",
    "C11": " sortable_proxy (behind argmax/argmin/amax/amin) writes coefficient values into its integer proxy only as ranks; amax/amin fetch the element of every reduced rank through argsort(proxy.ravel()) (a boolean-mask selection re-ordered by the ranks alone permutes the result as soon as an axis is given). amax/amin fetch the element of every reduced rank through argsort(proxy.ravel()) (R-RANKSEL); shared parameters sit at numpy's positions with numpy's defaults (R-SIGPOS, R-DEFAULTS).",
    "C12": " A result whose terms were all filtered away keeps the dtype of its inputs; the constant one that seeds a power carries the base's dtype.",
    "C13": " reshape (through which loadtxt restores the shape) re-wraps the storage with the polynomial's names. savetxt / loadtxt keep numpy's defaults for shared parameters (R-DEFAULTS) and the logical element order (R-MEMORDER); the retain flag __reduce__ does not pass is resolved from the options before use (O12).",
    "C14": " Library code outside option.py that calls set_options itself restores every key it changed from a snapshot on every exit (O9), and no generator yields inside 'with global_options' (O10). O11: on entry global_options applies exactly the caller's options (nothing merged in); O3 also checks the polarity of the membership guard (KeyError on the edge 'key not in table').",
    "C16": " to_string fills precision / suppress_small from the numpy print option of the same meaning. The text of a coefficient is str() of the coefficient element itself - no rounding / casting function in between.",
    "C18": " lexsort receives the keys promoted to 2-D and, with reverse, their rows flipped after that promotion; bindex's inverted ordering reverses rows only; cross_truncate divides by the bound only after negative and zero components were excluded; start/stop/dimensions/cross_truncation equal to 0 are never mistaken for 'omitted'.",
    "C19": " tonumpy returns the coefficient of the all-zero exponent row (never a fixed position); sortable_proxy writes coefficients into the integer proxy only as ranks; set_dimensions keeps a term iff none of the dropped exponent columns is non-zero and filters coefficients with the same mask; isconstant is False exactly for a non-constant term with a non-zero coefficient; the graded sort is stable. sortable_proxy returns the double-argsort permutation (not dense ranks); set_dimensions permutes names and exponent columns together (R-COLPERM); todict keeps every term unconverted (R-TERMS).",
    "C20": " Exponent matrices are never created with a coefficient dtype nor scaled by a run-time value while still uint32; derivative looks the column index up in the names of the polynomial whose exponents it indexes. The key codec is only the offset: no other literal shift of code points in the functions that encode or decode (R-CODEC); no character-class predicate on keys (R-KEYCLASS); savetxt keeps numpy's default encoding (R-DEFAULTS).",
    "C09": " Shared parameters sit at numpy's positions and have numpy's literal defaults (R-SIGPOS, R-DEFAULTS; numpoly.repeat's axis=0 is the recorded known finding F14); no memory-order flattening (R-MEMORDER).",
    "C15": " O12: an option-defaulted retain flag is never used while it may still be None; no option setting lets postprocess_attributes skip its validations (R-GUARDS).",
}
NOT_DECIDED_OVERRIDE = {
    "C14": "nothing of the statement is left undecided for option.py itself; for the rest of the library only direct set_options calls and generator suspension inside a with-block are covered",
    "C18": "that the index sets and norms are numerically right (the enumeration in _glexindex and the norm formula are value-level)",
    "C19": "the values returned; tie-breaking inside the proxy; decompose summing back to the input",
}
for _pid, _text in EXTRA_EXPLANATION.items():
    PLAN[_pid]["explanation"] += _text
for _pid, _text in NOT_DECIDED_OVERRIDE.items():
    PLAN[_pid]["not_decided"] = _text
