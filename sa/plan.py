"""Property -> rules (DESIGN.md section 4)."""
from __future__ import annotations

from typing import Callable, Dict, Optional

from .rules import dispatch, ops, opt, reg, sig

_CACHE: Dict[str, object] = {}


def _cached(key, fn):
    def run(ctx):
        ck = (id(ctx), key)
        if ck not in _CACHE:
            _CACHE[ck] = fn(ctx)
        return _CACHE[ck]

    return run


RULES: Dict[str, Callable] = {
    "R-SIG": _cached("R-SIG", sig.run),
    "R-REG": _cached("R-REG", reg.run),
    "R-DISPATCH": _cached("R-DISPATCH", dispatch.run),
    "R-OPS": _cached("R-OPS", ops.run),
    "R-OPT-TABLE": _cached("R-OPT-TABLE", opt.run_table),
    "R-OPT-LAYERS": _cached("R-OPT-LAYERS", opt.run_layers),
    "R-OPT-PAIRING": _cached("R-OPT-PAIRING", opt.run_pairing),
    "R-OPT-PINNED": _cached("R-OPT-PINNED", opt.run_pinned),
}


class Use:
    def __init__(self, rule: str, scoped: bool = False, only: Optional[Callable] = None,
                 only_ob: Optional[Callable] = None, clause: str = ""):
        self.rule = rule
        self.scoped = scoped
        self.only = only
        self.only_ob = only_ob
        self.clause = clause


PLAN: Dict[str, dict] = {
    "C14": {
        "uses": [Use("R-OPT-TABLE", clause="entire statement")],
        "explanation": "",
        "not_decided": "",
    },
    "C15": {
        "uses": [Use("R-OPT-LAYERS"), Use("R-OPT-PAIRING"), Use("R-OPT-PINNED")],
        "explanation": "",
        "not_decided": "",
    },
    "C08": {
        "uses": [
            Use("R-REG", clause="numpy.f(poly) and numpoly.f(poly) execute the same def"),
            Use("R-DISPATCH", clause="unsupported callables / ufunc methods raise FeatureNotSupported"),
            Use("R-OPS", clause="operators and method spellings forward to the same functions"),
        ],
        "explanation": "",
        "not_decided": "",
    },
}

# Properties for which no check exists (yet) in this revision, with the reason.
_PENDING = "no check implemented in this revision yet (rules are being built in DESIGN.md section 9 order)"
NOT_APPLICABLE: Dict[str, str] = {f"C{i:02d}": _PENDING for i in range(1, 21)}
