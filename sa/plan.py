"""Property -> rules (DESIGN.md section 4)."""
from __future__ import annotations

from typing import Callable, Dict, Optional

from .rules import alias, align, construct, dispatch, keys, ops, opt, pyx, reg, repres, sig, small, wrappers

_CACHE: Dict[str, object] = {}


def _cached(key, fn):
    def run(ctx):
        ck = (id(ctx), key)
        if ck not in _CACHE:
            _CACHE[ck] = fn(ctx)
        return _CACHE[ck]

    return run


RULES: Dict[str, Callable] = {
    "R-SIG": _cached("R-SIG", sig.run),
    "R-REG": _cached("R-REG", reg.run),
    "R-DISPATCH": _cached("R-DISPATCH", dispatch.run),
    "R-OPS": _cached("R-OPS", ops.run),
    "R-OPT-TABLE": _cached("R-OPT-TABLE", opt.run_table),
    "R-OPT-LAYERS": _cached("R-OPT-LAYERS", opt.run_layers),
    "R-OPT-PAIRING": _cached("R-OPT-PAIRING", opt.run_pairing),
    "R-OPT-PINNED": _cached("R-OPT-PINNED", opt.run_pinned),
    "R-ALIGN": _cached("R-ALIGN", align.run),
    "R-ALIAS": _cached("R-ALIAS", alias.run),
    "R-KEYS": _cached("R-KEYS", keys.run),
    "R-NAMES": _cached("R-NAMES", construct.run_names),
    "R-GETITEM": _cached("R-GETITEM", construct.run_getitem),
    "R-DTYPE": _cached("R-DTYPE", construct.run_dtype),
    "R-PAIR": _cached("R-PAIR", construct.run_pair),
    "R-COLIDX": _cached("R-COLIDX", construct.run_colidx),
    "R-CAST": _cached("R-CAST", keys.run_cast),
    "R-DELEGATE": _cached("R-DELEGATE", wrappers.run_delegate),
    "R-ORDER": _cached("R-ORDER", wrappers.run_order),
    "R-FWD": _cached("R-FWD", wrappers.run_fwd),
    "R-TWIN": _cached("R-TWIN", wrappers.run_twin),
    "R-CONST": _cached("R-CONST", small.run_const),
    "R-STABLE": _cached("R-STABLE", small.run_stable),
    "R-GUARDS": _cached("R-GUARDS", small.run_guards),
    "R-PYX-DISCARD": _cached("R-PYX-DISCARD", pyx.run_discarded),
    "R-PYX-DTYPE": _cached("R-PYX-DTYPE", pyx.run_dtypes),
    "R-PYX-MUL": _cached("R-PYX-MUL", pyx.run_multiply),
    "R-CODEC": _cached("R-CODEC", repres.run_codec),
    "R-FINAL": _cached("R-FINAL", repres.run_final),
    "R-REDUCE": _cached("R-REDUCE", repres.run_reduce),
    "R-HEADER": _cached("R-HEADER", repres.run_header),
}


class Use:
    def __init__(self, rule: str, scoped: bool = False, only: Optional[Callable] = None,
                 only_ob: Optional[Callable] = None, clause: str = ""):
        self.rule = rule
        self.scoped = scoped
        self.only = only
        self.only_ob = only_ob
        self.clause = clause


PLAN: Dict[str, dict] = {
    "C09": {
        "uses": [Use("R-SIG", scoped=True), Use("R-DELEGATE", scoped=True), Use("R-FWD", scoped=True), Use("R-NAMES", scoped=True),
                 Use("R-GETITEM"), Use("R-ALIGN", scoped=True), Use("R-DTYPE", scoped=True)],
        "explanation": "x",
        "not_decided": "",
    },
    "C03": {
        "uses": [Use("R-GUARDS"), Use("R-CODEC"), Use("R-FINAL"), Use("R-NAMES"), Use("R-PAIR"), Use("R-OPT-LAYERS")],
        "explanation": "x",
        "not_decided": "",
    },
    "C06": {
        "uses": [Use("R-COLIDX"), Use("R-ALIGN", scoped=True)],
        "explanation": "x",
        "not_decided": "",
    },
    "C16": {
        "uses": [Use("R-PAIR"), Use("R-OPT-PAIRING"), Use("R-OPT-LAYERS"), Use("R-STABLE")],
        "explanation": "x",
        "not_decided": "",
    },
    "C17": {
        "uses": [Use("R-ALIAS")],
        "explanation": "x",
        "not_decided": "",
    },
    "C10": {
        "uses": [Use("R-ALIGN", scoped=True), Use("R-DELEGATE", scoped=True), Use("R-ORDER", scoped=True), Use("R-FWD", scoped=True), Use("R-SIG", scoped=True)],
        "explanation": "x",
        "not_decided": "",
    },
    "C05": {
        "uses": [Use("R-ALIGN", scoped=True), Use("R-OPS")],
        "explanation": "x",
        "not_decided": "",
    },
    "C02": {
        "uses": [Use("R-TWIN"), Use("R-GUARDS")],
        "explanation": "x",
        "not_decided": "",
    },
    "C13": {
        "uses": [Use("R-REDUCE"), Use("R-FINAL"), Use("R-HEADER"), Use("R-CODEC"), Use("R-SIG", scoped=True)],
        "explanation": "x",
        "not_decided": "",
    },
    "C18": {
        "uses": [Use("R-STABLE")],
        "explanation": "x",
        "not_decided": "",
    },
    "C20": {
        "uses": [Use("R-CODEC"), Use("R-PYX-MUL"), Use("R-HEADER")],
        "explanation": "x",
        "not_decided": "",
    },
    "C12": {
        "uses": [Use("R-PYX-DISCARD"), Use("R-PYX-DTYPE"), Use("R-KEYS"), Use("R-CAST"), Use("R-DTYPE")],
        "explanation": "x",
        "not_decided": "",
    },
    "C11": {
        "uses": [Use("R-CONST"), Use("R-SIG", scoped=True), Use("R-DELEGATE", scoped=True), Use("R-ORDER", scoped=True), Use("R-FWD", scoped=True)],
        "explanation": "x",
        "not_decided": "",
    },
    "C14": {
        "uses": [Use("R-OPT-TABLE", clause="entire statement")],
        "explanation": "",
        "not_decided": "",
    },
    "C15": {
        "uses": [Use("R-OPT-LAYERS"), Use("R-OPT-PAIRING"), Use("R-OPT-PINNED")],
        "explanation": "",
        "not_decided": "",
    },
    "C08": {
        "uses": [
            Use("R-REG", clause="numpy.f(poly) and numpoly.f(poly) execute the same def"),
            Use("R-DISPATCH", clause="unsupported callables / ufunc methods raise FeatureNotSupported"),
            Use("R-OPS", clause="operators and method spellings forward to the same functions"),
        ],
        "explanation": "",
        "not_decided": "",
    },
}

# Properties for which no check exists (yet) in this revision, with the reason.
_PENDING = "no check implemented in this revision yet (rules are being built in DESIGN.md section 9 order)"
NOT_APPLICABLE: Dict[str, str] = {f"C{i:02d}": _PENDING for i in range(1, 21)}
