"""E2-E4: import tables, package namespaces, registries, callee resolution."""
from __future__ import annotations

import ast
from typing import Dict, List, Optional, Tuple

from . import AnalysisError
from .repo import Module, Repo, PACKAGE


class Binding:
    """What a name in a module namespace refers to."""

    __slots__ = ("kind", "module", "node", "target", "alts")

    def __init__(self, kind, module=None, node=None, target=None, alts=None):
        self.kind = kind  # def | class | module | assign | ext | unknown
        self.module = module  # defining Module (def/class/assign)
        self.node = node
        self.target = target  # dotted name for module/ext
        self.alts = alts or []  # alternative assign nodes (if/else at top level)

    def __repr__(self):
        where = self.module.name if self.module else self.target
        return f"<Binding {self.kind} {where}>"


class Resolver:
    def __init__(self, repo: Repo):
        self.repo = repo
        self._ns: Dict[str, Dict[str, Binding]] = {}
        self._building: set = set()

    # -- namespaces ---------------------------------------------------------

    def _abs_module(self, module: Module, level: int, name: Optional[str]) -> str:
        if level == 0:
            return name or ""
        parts = module.name.split(".")
        if not module.is_package:
            parts = parts[:-1]
        if level > 1:
            parts = parts[: len(parts) - (level - 1)]
        base = ".".join(parts)
        return f"{base}.{name}" if name else base

    def namespace(self, modname: str) -> Dict[str, Binding]:
        if modname in self._ns:
            return self._ns[modname]
        if modname in self._building:
            return {}  # circular import: names not yet available
        if modname not in self.repo.modules:
            return {}
        self._building.add(modname)
        module = self.repo.modules[modname]
        ns: Dict[str, Binding] = {}
        self._exec_body(module, module.tree.body, ns)
        self._building.discard(modname)
        self._ns[modname] = ns
        return ns

    def _exec_body(self, module: Module, body: List[ast.stmt], ns: Dict[str, Binding]):
        for stmt in body:
            if isinstance(stmt, ast.Import):
                for alias in stmt.names:
                    if alias.asname:
                        ns[alias.asname] = Binding("module", target=alias.name)
                    else:
                        root = alias.name.split(".")[0]
                        ns[root] = Binding("module", target=root)
            elif isinstance(stmt, ast.ImportFrom):
                source = self._abs_module(module, stmt.level, stmt.module)
                for alias in stmt.names:
                    if alias.name == "*":
                        src_ns = self.namespace(source)
                        names = self._public_names(source, src_ns)
                        for name in names:
                            if name in src_ns:
                                ns[name] = src_ns[name]
                        continue
                    local = alias.asname or alias.name
                    ns[local] = self._import_name(source, alias.name)
            elif isinstance(stmt, (ast.FunctionDef, ast.AsyncFunctionDef)):
                ns[stmt.name] = Binding("def", module, stmt)
            elif isinstance(stmt, ast.ClassDef):
                ns[stmt.name] = Binding("class", module, stmt)
            elif isinstance(stmt, (ast.Assign, ast.AnnAssign)):
                targets = stmt.targets if isinstance(stmt, ast.Assign) else [stmt.target]
                if getattr(stmt, "value", None) is None:
                    continue
                for target in targets:
                    if isinstance(target, ast.Name):
                        previous = ns.get(target.id)
                        binding = Binding("assign", module, stmt)
                        if previous is not None and previous.kind == "assign":
                            binding.alts = [previous.node] + previous.alts
                        ns[target.id] = binding
            elif isinstance(stmt, ast.If):
                self._exec_body(module, stmt.body, ns)
                self._exec_body(module, stmt.orelse, ns)
            elif isinstance(stmt, ast.Try):
                self._exec_body(module, stmt.body, ns)
                for handler in stmt.handlers:
                    self._exec_body(module, handler.body, ns)
                self._exec_body(module, stmt.orelse, ns)
                self._exec_body(module, stmt.finalbody, ns)
            elif isinstance(stmt, ast.With):
                self._exec_body(module, stmt.body, ns)

    def _public_names(self, modname: str, ns: Dict[str, Binding]) -> List[str]:
        binding = ns.get("__all__")
        if binding is not None and binding.kind == "assign":
            value = binding.node.value
            if isinstance(value, (ast.Tuple, ast.List)) and all(
                isinstance(e, ast.Constant) and isinstance(e.value, str) for e in value.elts
            ):
                return [e.value for e in value.elts]
            raise AnalysisError(f"{modname}.__all__ is not a literal")
        return [name for name in ns if not name.startswith("_")]

    def _import_name(self, source: str, name: str) -> Binding:
        if source.split(".")[0] != PACKAGE:
            return Binding("ext", target=f"{source}.{name}")
        src_ns = self.namespace(source)
        if name in src_ns:
            return src_ns[name]
        sub = f"{source}.{name}"
        if sub in self.repo.modules:
            return Binding("module", target=sub)
        if source in self._building:
            # circular import of a name that is bound later; resolve lazily
            return Binding("lazy", target=f"{source}.{name}")
        return Binding("unknown", target=f"{source}.{name}")

    # -- dotted names -------------------------------------------------------

    @staticmethod
    def chain(expr: ast.AST) -> Optional[List[str]]:
        parts: List[str] = []
        while isinstance(expr, ast.Attribute):
            parts.append(expr.attr)
            expr = expr.value
        if isinstance(expr, ast.Name):
            parts.append(expr.id)
            return parts[::-1]
        return None

    def lookup(self, dotted: str) -> Binding:
        """Resolve an absolute dotted name to its binding."""
        parts = dotted.split(".")
        if parts[0] != PACKAGE:
            return Binding("ext", target=dotted)
        # longest module prefix
        idx = len(parts)
        while idx > 0 and ".".join(parts[:idx]) not in self.repo.modules:
            idx -= 1
        if idx == 0:
            return Binding("unknown", target=dotted)
        binding = Binding("module", target=".".join(parts[:idx]))
        for pos in range(idx, len(parts)):
            binding = self._getattr(binding, parts[pos])
            if binding.kind in ("unknown", "ext"):
                if binding.kind == "ext" and pos + 1 < len(parts):
                    return Binding("ext", target=binding.target + "." + ".".join(parts[pos + 1 :]))
                return binding
        return binding

    def _getattr(self, binding: Binding, attr: str) -> Binding:
        if binding.kind == "lazy":
            binding = self.lookup(binding.target)
        if binding.kind == "module":
            modname = binding.target
            if modname.split(".")[0] != PACKAGE:
                return Binding("ext", target=f"{modname}.{attr}")
            ns = self.namespace(modname)
            if attr in ns:
                found = ns[attr]
                if found.kind == "lazy":
                    return self.lookup(found.target)
                return found
            sub = f"{modname}.{attr}"
            if sub in self.repo.modules:
                return Binding("module", target=sub)
            return Binding("unknown", target=sub)
        if binding.kind == "ext":
            return Binding("ext", target=f"{binding.target}.{attr}")
        if binding.kind == "class":
            for stmt in binding.node.body:
                if isinstance(stmt, (ast.FunctionDef, ast.AsyncFunctionDef)) and stmt.name == attr:
                    return Binding("def", binding.module, stmt)
                if isinstance(stmt, (ast.Assign, ast.AnnAssign)):
                    targets = stmt.targets if isinstance(stmt, ast.Assign) else [stmt.target]
                    for target in targets:
                        if isinstance(target, ast.Name) and target.id == attr:
                            return Binding("assign", binding.module, stmt)
            return Binding("unknown", target=f"{binding.node.name}.{attr}")
        return Binding("unknown", target=attr)

    def resolve_expr(self, module: Module, expr: ast.AST, local_names=()) -> Binding:
        """Resolve a Name/Attribute chain occurring in ``module``."""
        parts = self.chain(expr)
        if not parts or parts[0] in local_names:
            return Binding("unknown", target=ast.unparse(expr) if parts else None)
        ns = self.namespace(module.name)
        if parts[0] not in ns:
            if parts[0] in ("numpy", PACKAGE):
                # canonicalised alias in a provenance expression (np -> numpy)
                binding = Binding("module", target=parts[0])
                for attr in parts[1:]:
                    binding = self._getattr(binding, attr)
                    if binding.kind == "unknown":
                        return binding
                if binding.kind == "lazy":
                    binding = self.lookup(binding.target)
                return binding
            return Binding("unknown", target=".".join(parts))
        binding = ns[parts[0]]
        for attr in parts[1:]:
            binding = self._getattr(binding, attr)
            if binding.kind == "unknown":
                return binding
        if binding.kind == "lazy":
            binding = self.lookup(binding.target)
        return binding

    def dotted(self, module: Module, expr: ast.AST, local_names=()) -> Optional[str]:
        """Canonical dotted name: 'numpy.add', 'numpoly.align.align_exponents',
        'numpoly.baseclass.ndpoly.from_attributes', or None."""
        binding = self.resolve_expr(module, expr, local_names)
        return self.binding_name(binding)

    @staticmethod
    def binding_name(binding: Binding) -> Optional[str]:
        if binding.kind in ("ext", "module"):
            return binding.target
        if binding.kind in ("def", "class"):
            qual = getattr(binding.node, "_qualname", binding.node.name)
            return f"{binding.module.name}.{qual}"
        if binding.kind == "assign":
            target = binding.node.targets[0] if isinstance(binding.node, ast.Assign) else binding.node.target
            parent = getattr(binding.node, "_parent", None)
            prefix = ""
            if isinstance(parent, ast.ClassDef):
                prefix = parent._qualname + "."
            return f"{binding.module.name}.{prefix}{target.id}"
        return None

    def public(self, name: str) -> Binding:
        """numpoly.<name> as a user sees it."""
        return self.lookup(f"{PACKAGE}.{name}")


# ---------------------------------------------------------------------------
# registries


class Registration:
    def __init__(self, module, func, decorator, kind, targets, lineno):
        self.module = module
        self.func = func  # FunctionDef
        self.decorator = decorator  # ast.Call
        self.kind = kind  # implements | implements_function | implements_ufunc
        self.targets = targets  # list of dotted numpy names (or builtin names)
        self.lineno = lineno


DECORATORS = {
    "numpoly.dispatch.implements": "implements",
    "numpoly.dispatch.implements_function": "implements_function",
    "numpoly.dispatch.implements_ufunc": "implements_ufunc",
}


def registrations(repo: Repo, res: Resolver) -> List[Registration]:
    found: List[Registration] = []
    for module, qual, func in repo.all_functions():
        for deco in func.decorator_list:
            if not isinstance(deco, ast.Call):
                continue
            name = res.dotted(module, deco.func)
            if name not in DECORATORS:
                continue
            targets: List[str] = []
            for arg in deco.args:
                if isinstance(arg, ast.Starred):
                    binding = res.resolve_expr(module, arg.value)
                    if binding.kind != "assign":
                        raise AnalysisError(
                            f"{module.loc(deco)}: cannot resolve starred registration target"
                        )
                    for node in [binding.node] + binding.alts:
                        for value in _literal_lists(res, module, node.value):
                            if value is None:
                                raise AnalysisError(
                                    f"{module.loc(node)}: registration list is not a literal"
                                )
                            for elt in value.elts:
                                targets.append(res.dotted(module, elt) or "builtin:" + ast.unparse(elt))
                else:
                    dotted = res.dotted(module, arg)
                    if dotted is None:
                        raise AnalysisError(
                            f"{module.loc(deco)}: cannot resolve registration target "
                            f"{ast.unparse(arg)}"
                        )
                    targets.append(dotted)
            found.append(Registration(module, func, deco, DECORATORS[name], targets, deco.lineno))
    return found


def _literal_lists(res: Resolver, module: Module, value: ast.expr):
    """The list/tuple literals a registration-target expression may denote: the literal itself, or every literal
    returned by a same-module zero-argument function it calls (version switches written as a function).  Yields
    None for anything else."""
    if isinstance(value, (ast.List, ast.Tuple)):
        yield value
        return
    if isinstance(value, ast.Call) and not value.args and not value.keywords:
        binding = res.resolve_expr(module, value.func)
        if binding.kind == "def":
            returns = [n for n in ast.walk(binding.node) if isinstance(n, ast.Return)]
            if returns and all(isinstance(r.value, (ast.List, ast.Tuple)) for r in returns):
                for ret in returns:
                    yield ret.value
                return
    if isinstance(value, ast.IfExp):
        yield from _literal_lists(res, module, value.body)
        yield from _literal_lists(res, module, value.orelse)
        return
    yield None
