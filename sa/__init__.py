"""Static-analysis engine for jonathf/numpoly (see /verif/DESIGN.md).

Nothing in this package imports or executes ``numpoly``; the repository is only
read as source text.  ``numpy`` (the installed platform) is imported solely for
its metadata (signatures, ufunc-ness) in :mod:`sa.numpyfacts`.
"""


class AnalysisError(Exception):
    """The engine cannot analyse a construct (exit code 2, never a VIOLATION)."""
