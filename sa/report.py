"""Findings, rule results, known-findings file, evidence and replay files."""
from __future__ import annotations

import ast
import json
import os
import re
from typing import Any, Dict, List, Optional

VERIF = os.path.dirname(os.path.dirname(os.path.abspath(__file__)))
KNOWN_FILE = os.path.join(VERIF, "known_findings.json")
EVIDENCE_DIR = os.environ.get("VERIF_EVIDENCE_DIR") or os.path.join(VERIF, "evidence")


def norm(text: str) -> str:
    return re.sub(r"\s+", " ", text).strip()


def unparse(node) -> str:
    if isinstance(node, str):
        return norm(node)
    try:
        return norm(ast.unparse(getattr(node, "_orig", node)))
    except Exception:  # pragma: no cover
        return "<?>"


class Finding:
    def __init__(self, rule: str, module, function: str, node, message: str,
                 derivation: Optional[List[str]] = None, construct: Optional[str] = None):
        self.rule = rule
        self.relpath = module.relpath if hasattr(module, "relpath") else str(module)
        self.modname = getattr(module, "name", "")
        self.function = function
        node = getattr(node, "_orig", node)
        self.lineno = getattr(node, "lineno", 0) if node is not None else 0
        self.construct = construct if construct is not None else (unparse(node)[:300] if node is not None else "")
        self.message = message
        self.derivation = derivation or []

    @property
    def fq(self) -> str:
        return f"{self.modname}.{self.function}"

    @property
    def key(self) -> Dict[str, str]:
        return {"rule": self.rule, "file": self.relpath, "function": self.function,
                "construct": self.construct}

    def matches(self, entry: Dict[str, str]) -> bool:
        for field in ("rule", "file", "function", "construct"):
            if field in entry and norm(str(entry[field])) != norm(str(self.key[field])):
                return False
        return True

    def to_json(self) -> Dict[str, Any]:
        return {**self.key, "line": self.lineno, "message": self.message,
                "derivation": self.derivation}

    def __repr__(self):
        return f"{self.relpath}:{self.lineno}: [{self.rule}] {self.function}: {self.message} :: {self.construct}"


class RuleResult:
    def __init__(self, rule: str, description: str = ""):
        self.rule = rule
        self.description = description
        self.obligations: List[Dict[str, Any]] = []
        self.findings: List[Finding] = []
        self.exceptions: List[Dict[str, str]] = []  # confirmed exceptions with reasons
        self.info: Dict[str, Any] = {}
        self.floor = 0

    def ob(self, ident: str, ok: bool, where: str = "", detail: str = "") -> None:
        self.obligations.append({"id": ident, "ok": bool(ok), "where": where, "detail": detail})

    def add(self, finding: Finding) -> None:
        # de-duplicate by key (several paths may reach the same construct)
        for old in self.findings:
            if old.key == finding.key:
                return
        self.findings.append(finding)

    def exception(self, where: str, reason: str) -> None:
        self.exceptions.append({"where": where, "reason": reason})

    @property
    def n_ok(self) -> int:
        return sum(1 for o in self.obligations if o["ok"])


def load_known() -> List[Dict[str, Any]]:
    if not os.path.exists(KNOWN_FILE):
        return []
    with open(KNOWN_FILE, encoding="utf-8") as handle:
        data = json.load(handle)
    return data.get("findings", [])


def classify(finding: Finding, property_id: str, known: List[Dict[str, Any]]):
    """Return the matching *known* entry (status == 'known') or None.

    'fixed' entries never suppress anything."""
    for entry in known:
        if entry.get("status") != "known":
            continue
        props = entry.get("properties") or [entry.get("property")]
        if property_id not in props:
            continue
        if finding.matches(entry.get("key", {})):
            return entry
    return None


def write_json(path: str, data: Any) -> None:
    os.makedirs(os.path.dirname(path), exist_ok=True)
    tmp = path + ".tmp"
    with open(tmp, "w", encoding="utf-8") as handle:
        json.dump(data, handle, indent=1, sort_keys=False, default=str)
        handle.write("\n")
    os.replace(tmp, path)
