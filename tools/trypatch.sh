#!/bin/bash
# usage: tools/trypatch.sh <patch.diff> <Cxx> [<Cyy> ...]
# applies the patch to /repo, runs the quick checks, reverts.  Never commits.
set -u
patch="$1"; shift
if [ -n "$(git -C /repo status --porcelain --untracked-files=no)" ]; then echo "repo dirty"; exit 3; fi
git -C /repo apply "$patch" || { echo "patch does not apply"; exit 3; }
trap 'git -C /repo checkout -- .' EXIT
for p in "$@"; do
  /venv/bin/python /verif/check "$p" --tier quick | grep -E "VIOLATION|ANALYSIS-ERROR|^  numpoly|quick:" | cut -c1-260
  echo "  -> exit ${PIPESTATUS[0]}"
done
