#!/venv/bin/python
"""Systematic mutant sweep: a *measurement* of what the rules constrain, not a check.

For every function in the anchor files of the given properties, generic AST mutation operators
(drop a keyword, swap two arguments, negate a condition, swap operands of a non-commutative
operator, weaken/strengthen a comparison, change a slice bound, flip 0/1 and True/False
constants, delete a statement, confuse two parameters) produce one-edit variants of the
*current* source, held in memory.  Every variant is analysed with the rules of every property
that anchors the edited file, exactly as ./check does (scopes, filters, vacuity guard).  Nothing
of numpoly is executed.  The output says, per mutant, which rules report it (killed), whether the
engine gave up (error) or whether every check stays silent (survived).  Survivors are the places
where no structural clause constrains the code; they are read by hand (many are equivalent or
are killed by the test-suite) and are the input for new rules.  A generic mutant is not known to
break a property, so the kill rate is information, never a verdict.

usage: mutant_sweep.py [--props C01,C05 | --props all] [--files substr[,substr]] [--jobs N]
                       [--ops KWDROP,ARGSWAP,...] [--out /path/result.jsonl] [--limit N]
"""
import argparse
import ast
import json
import os
import sys
import time
from concurrent.futures import ProcessPoolExecutor

sys.path.insert(0, os.path.dirname(os.path.dirname(os.path.abspath(__file__))))
sys.dont_write_bytecode = True

from sa import AnalysisError  # noqa: E402
from sa.repo import REPO_ROOT, Repo  # noqa: E402

NONCOMM = (ast.Sub, ast.Div, ast.FloorDiv, ast.Mod, ast.Pow, ast.MatMult, ast.LShift, ast.RShift)
CMP_FLIP = {ast.Lt: ast.LtE, ast.LtE: ast.Lt, ast.Gt: ast.GtE, ast.GtE: ast.Gt, ast.Eq: ast.NotEq,
            ast.NotEq: ast.Eq, ast.Is: ast.IsNot, ast.IsNot: ast.Is, ast.In: ast.NotIn, ast.NotIn: ast.In}


def _segment(src_lines, node):
    """(start offset, end offset) of node in the source text."""
    def off(line, col):
        return sum(len(l) for l in src_lines[: line - 1]) + len(src_lines[line - 1].encode("utf-8")[:col].decode("utf-8"))
    return off(node.lineno, node.col_offset), off(node.end_lineno, node.end_col_offset)


def _is_docstring(stmt, parent):
    body = getattr(parent, "body", None)
    return (isinstance(stmt, ast.Expr) and isinstance(stmt.value, ast.Constant) and isinstance(stmt.value.value, str)
            and body and body[0] is stmt)


def mutants_of(relpath, src):
    """Yield (op, function, lineno, start, end, replacement text, description)."""
    try:
        tree = ast.parse(src)
    except SyntaxError:
        return
    lines = src.splitlines(keepends=True)
    out = []

    def emit(op, func, node, new_node_or_text, desc):
        start, end = _segment(lines, node)
        text = new_node_or_text if isinstance(new_node_or_text, str) else ast.unparse(new_node_or_text)
        old = src[start:end]
        if text.strip() == old.strip():
            return
        out.append((op, func, node.lineno, start, end, text, desc))

    def clone(node):
        return ast.parse(ast.unparse(node), mode="eval").body if isinstance(node, ast.expr) else None

    for func in [n for n in ast.walk(tree) if isinstance(n, (ast.FunctionDef, ast.AsyncFunctionDef))]:
        fname = func.name
        params = [a.arg for a in func.args.posonlyargs + func.args.args]
        # nodes belonging to this function but not to nested functions are handled at the nested level too;
        # duplicates are removed at the end by (start, end, text)
        for parent in ast.walk(func):
            # ---- statements
            for field in ("body", "orelse", "finalbody"):
                block = getattr(parent, field, None)
                if not isinstance(block, list):
                    continue
                for stmt in block:
                    if not isinstance(stmt, ast.stmt):
                        continue
                    if isinstance(stmt, (ast.Assign, ast.AugAssign, ast.Expr)) and not _is_docstring(stmt, parent):
                        if isinstance(stmt, ast.Assign) and len(block) > 1:
                            # deleting a plain definition mostly gives NameError; keep re-definitions only
                            names = {t.id for t in stmt.targets if isinstance(t, ast.Name)}
                            earlier = any(isinstance(n, ast.Name) and isinstance(n.ctx, ast.Store) and n.id in names
                                          and (n.lineno, n.col_offset) < (stmt.lineno, stmt.col_offset)
                                          for n in ast.walk(func)) or bool(names & set(params))
                            if names and not earlier:
                                continue
                        emit("STMTDEL", fname, stmt, "pass", f"delete `{ast.unparse(stmt)[:70]}`")
                    if isinstance(stmt, (ast.If, ast.While)):
                        emit("NEGIF", fname, stmt.test, ast.UnaryOp(op=ast.Not(), operand=stmt.test),
                             f"negate `{ast.unparse(stmt.test)[:70]}`")
                    if isinstance(stmt, ast.For):
                        it = stmt.iter
                        emit("FORSKIP", fname, it, f"list({ast.unparse(it)})[1:]", f"loop skips first of `{ast.unparse(it)[:60]}`")
            if isinstance(parent, ast.IfExp):
                emit("NEGIF", fname, parent.test, ast.UnaryOp(op=ast.Not(), operand=parent.test),
                     f"negate `{ast.unparse(parent.test)[:70]}`")
            # ---- expressions
            if isinstance(parent, ast.Call):
                for idx, kw in enumerate(parent.keywords):
                    if kw.arg is None:
                        continue
                    new = clone(parent)
                    del new.keywords[idx]
                    emit("KWDROP", fname, parent, new, f"drop {kw.arg}= from `{ast.unparse(parent.func)}(...)`")
                    if isinstance(kw.value, ast.Constant) and isinstance(kw.value.value, bool):
                        new = clone(parent)
                        new.keywords[idx].value = ast.Constant(value=not kw.value.value)
                        emit("CONST", fname, parent, new, f"{kw.arg}={kw.value.value} -> {not kw.value.value}")
                plain = [a for a in parent.args if not isinstance(a, ast.Starred)]
                if len(parent.args) >= 2 and len(plain) == len(parent.args) and \
                        ast.unparse(parent.args[0]) != ast.unparse(parent.args[1]):
                    new = clone(parent)
                    new.args[0], new.args[1] = new.args[1], new.args[0]
                    emit("ARGSWAP", fname, parent, new, f"swap first two arguments of `{ast.unparse(parent.func)}(...)`")
                for idx, kw in enumerate(parent.keywords):
                    for jdx, kw2 in enumerate(parent.keywords):
                        if idx < jdx and kw.arg and kw2.arg and isinstance(kw.value, ast.Name) and isinstance(kw2.value, ast.Name) \
                                and kw.value.id != kw2.value.id:
                            new = clone(parent)
                            new.keywords[idx].value, new.keywords[jdx].value = new.keywords[jdx].value, new.keywords[idx].value
                            emit("KWCROSS", fname, parent, new, f"cross-wire {kw.arg}= and {kw2.arg}=")
            if isinstance(parent, ast.BinOp) and isinstance(parent.op, NONCOMM):
                new = clone(parent)
                new.left, new.right = new.right, new.left
                emit("BINSWAP", fname, parent, new, f"swap operands of `{ast.unparse(parent)[:60]}`")
            if isinstance(parent, ast.Compare) and len(parent.ops) == 1:
                op = type(parent.ops[0])
                if op in CMP_FLIP:
                    new = clone(parent)
                    new.ops = [CMP_FLIP[op]()]
                    emit("CMPOP", fname, parent, new, f"`{ast.unparse(parent)[:60]}` -> {CMP_FLIP[op].__name__}")
                if op in (ast.Lt, ast.LtE, ast.Gt, ast.GtE):
                    new = clone(parent)
                    new.left, new.comparators[0] = new.comparators[0], new.left
                    emit("BINSWAP", fname, parent, new, f"swap sides of `{ast.unparse(parent)[:60]}`")
            if isinstance(parent, ast.Subscript):
                sl = parent.slice
                slices = [sl] if isinstance(sl, ast.Slice) else [e for e in getattr(sl, "elts", []) if isinstance(e, ast.Slice)]
                for s in slices:
                    for bound in ("lower", "upper"):
                        val = getattr(s, bound)
                        if val is not None:
                            new = clone(parent)
                            ns = new.slice if isinstance(new.slice, ast.Slice) else \
                                [e for e in new.slice.elts if isinstance(e, ast.Slice)][slices.index(s)]
                            setattr(ns, bound, None)
                            emit("SLICE", fname, parent, new, f"drop {bound} bound of `{ast.unparse(parent)[:60]}`")
                if isinstance(sl, ast.Constant) and isinstance(sl.value, int) and not isinstance(sl.value, bool) and sl.value in (0, 1, -1):
                    new = clone(parent)
                    new.slice = ast.Constant(value={0: 1, 1: 0, -1: 0}[sl.value])
                    emit("CONST", fname, parent, new, f"index {sl.value} -> {new.slice.value} in `{ast.unparse(parent)[:60]}`")
            if isinstance(parent, ast.Call):
                for idx, kw in enumerate(parent.keywords):
                    if kw.arg in ("axis", "k", "offset", "n") and isinstance(kw.value, ast.Constant) and kw.value.value in (0, 1, -1):
                        new = clone(parent)
                        new.keywords[idx].value = ast.Constant(value={0: 1, 1: 0, -1: 0}[kw.value.value])
                        emit("CONST", fname, parent, new, f"{kw.arg}={kw.value.value} -> {new.keywords[idx].value.value}")
            if isinstance(parent, ast.BoolOp):
                new = clone(parent)
                new.op = ast.Or() if isinstance(parent.op, ast.And) else ast.And()
                emit("BOOLOP", fname, parent, new, f"and<->or in `{ast.unparse(parent)[:60]}`")
        # ---- parameter confusion: first two parameters (skipping self)
        real = [p for p in params if p not in ("self", "cls")]
        if len(real) >= 2:
            a, b = real[0], real[1]
            for node in ast.walk(func):
                if isinstance(node, ast.Name) and isinstance(node.ctx, ast.Load) and node.id in (a, b):
                    emit("PARAMSWAP", fname, node, b if node.id == a else a, f"use {b if node.id == a else a} instead of {node.id}")
    seen = set()
    for item in out:
        key = (item[3], item[4], item[5])
        if key not in seen:
            seen.add(key)
            yield item


def evaluate(ctx, pids, props):
    """Findings (violations + known) per property, with the filters of sa.engine.run_property."""
    from sa.engine import scope_of
    from sa.plan import PLAN, RULES

    per = {}
    for pid in pids:
        spec = PLAN[pid]
        try:
            roots, scope = scope_of(ctx, props[pid])
            keys = {}
            for use in spec["uses"]:
                result = RULES[use.rule](ctx)
                findings = result.findings
                if use.scoped:
                    findings = [f for f in findings if f.fq in scope or f.fq.rsplit(".", 1)[0] in scope]
                if use.only is not None:
                    findings = [f for f in findings if use.only(f)]
                if len(result.obligations) < max(1, result.floor // 2):
                    raise AnalysisError(f"vacuity guard {result.rule}")
                for f in findings:
                    keys[tuple(sorted(f.key.items()))] = result.rule
            per[pid] = ("ok", keys)
        except AnalysisError as exc:
            per[pid] = ("error", str(exc)[:200])
        except RecursionError:
            per[pid] = ("error", "RecursionError")
        except Exception as exc:  # noqa: BLE001
            per[pid] = ("error", f"{type(exc).__name__}: {exc}"[:200])
    return per


_BASE = {}


def _work(job):
    from sa.ctx import Ctx
    from sa.engine import load_properties

    relpath, src, mut, pids = job
    props = load_properties()
    op, func, lineno, start, end, text, desc = mut
    new_src = src[:start] + text + src[end:]
    try:
        compile(new_src, relpath, "exec")
    except SyntaxError:
        return None
    base_key = tuple(pids)
    if base_key not in _BASE:
        _BASE[base_key] = evaluate(Ctx(Repo()), pids, props)
    base = _BASE[base_key]
    try:
        ctx = Ctx(Repo(overrides={relpath: new_src}))
        res = evaluate(ctx, pids, props)
    except AnalysisError as exc:
        res = {pid: ("error", str(exc)[:200]) for pid in pids}
    except Exception as exc:  # noqa: BLE001
        res = {pid: ("error", f"{type(exc).__name__}: {exc}"[:200]) for pid in pids}
    record = {"file": relpath, "function": func, "line": lineno, "op": op, "desc": desc,
              "old": src[start:end][:160], "new": text[:160], "start": start, "end": end, "verdict": {}}
    for pid in pids:
        status, payload = res[pid]
        if status == "error":
            record["verdict"][pid] = {"status": "error", "detail": payload}
            continue
        bstatus, bkeys = base[pid]
        new = sorted({rule for key, rule in payload.items() if bstatus != "ok" or key not in bkeys})
        record["verdict"][pid] = {"status": "killed" if new else "survived", "rules": new}
    return record


def main():
    ap = argparse.ArgumentParser()
    ap.add_argument("--props", default="all")
    ap.add_argument("--files", default="")
    ap.add_argument("--ops", default="")
    ap.add_argument("--jobs", type=int, default=16)
    ap.add_argument("--limit", type=int, default=0)
    ap.add_argument("--out", default="/tmp/mutant_sweep.jsonl")
    ap.add_argument("--count", action="store_true", help="only count the mutants")
    args = ap.parse_args()
    from sa.engine import load_properties

    props = load_properties()
    pids = sorted(props) if args.props == "all" else args.props.split(",")
    by_file = {}
    for pid in pids:
        for entry in props[pid]["anchors"]["files"]:
            if "(all modules)" in entry:
                prefix = entry.split(" ")[0]
                for dirpath, _, names in os.walk(os.path.join(REPO_ROOT, prefix)):
                    for n in sorted(names):
                        if n.endswith(".py") and n != "__init__.py":
                            by_file.setdefault(os.path.relpath(os.path.join(dirpath, n), REPO_ROOT), []).append(pid)
            elif entry.endswith(".py") and entry.startswith("numpoly/"):
                by_file.setdefault(entry, []).append(pid)
    subs = [s for s in args.files.split(",") if s]
    ops = set(o for o in args.ops.split(",") if o)
    jobs = []
    for relpath in sorted(by_file):
        if subs and not any(s in relpath for s in subs):
            continue
        path = os.path.join(REPO_ROOT, relpath)
        if not os.path.exists(path):
            continue
        src = open(path, encoding="utf-8").read()
        for mut in mutants_of(relpath, src):
            if ops and mut[0] not in ops:
                continue
            jobs.append((relpath, src, mut, tuple(sorted(set(by_file[relpath])))))
    if args.limit:
        jobs = jobs[: args.limit]
    print(f"{len(jobs)} mutants in {len({j[0] for j in jobs})} files", flush=True)
    if args.count:
        from collections import Counter
        print(Counter(j[2][0] for j in jobs))
        return 0
    started = time.time()
    # group jobs with the same property tuple together so that the per-process baseline cache is hit
    jobs.sort(key=lambda j: (j[3], j[0], j[2][3]))
    n = {"killed": 0, "survived": 0, "error": 0}
    with open(args.out, "w", encoding="utf-8") as handle, ProcessPoolExecutor(max_workers=args.jobs) as pool:
        for done, record in enumerate(pool.map(_work, jobs, chunksize=4), 1):
            if record is None:
                continue
            handle.write(json.dumps(record) + "\n")
            handle.flush()
            statuses = {v["status"] for v in record["verdict"].values()}
            n["killed" if "killed" in statuses else ("error" if "error" in statuses else "survived")] += 1
            if done % 50 == 0:
                print(f"  {done}/{len(jobs)} {n} {time.time() - started:.0f}s", flush=True)
    print(f"done: {n} in {time.time() - started:.0f}s -> {args.out}")
    return 0


if __name__ == "__main__":
    sys.exit(main())
