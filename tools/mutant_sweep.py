#!/venv/bin/python
"""Systematic mutant sweep: a *measurement* of what the rules constrain, not a check.

For every function in the anchor files of the given properties, generic AST mutation operators
(drop a keyword, swap two arguments, negate a condition, swap operands of a non-commutative
operator, weaken/strengthen a comparison, change a slice bound, flip 0/1 and True/False
constants, delete a statement, confuse two parameters) produce one-edit variants of the
*current* source, held in memory.  Every variant is analysed with the rules of every property
that anchors the edited file, exactly as ./check does (scopes, filters, vacuity guard).  Nothing
of numpoly is executed.  The output says, per mutant, which rules report it (killed), whether the
engine gave up (error) or whether every check stays silent (survived).  Survivors are the places
where no structural clause constrains the code; they are read by hand (many are equivalent or
are killed by the test-suite) and are the input for new rules.  A generic mutant is not known to
break a property, so the kill rate is information, never a verdict.

usage: mutant_sweep.py [--props C01,C05 | --props all] [--files substr[,substr]] [--jobs N]
                       [--ops KWDROP,ARGSWAP,...] [--out /path/result.jsonl] [--limit N]
"""
import argparse
import json
import os
import sys
import time
from concurrent.futures import ProcessPoolExecutor

sys.path.insert(0, os.path.dirname(os.path.dirname(os.path.abspath(__file__))))
sys.dont_write_bytecode = True

from sa.repo import REPO_ROOT  # noqa: E402
from sa.selftest.sweep import _work, mutants_of  # noqa: E402


def main():
    ap = argparse.ArgumentParser()
    ap.add_argument("--props", default="all")
    ap.add_argument("--files", default="")
    ap.add_argument("--ops", default="")
    ap.add_argument("--jobs", type=int, default=16)
    ap.add_argument("--limit", type=int, default=0)
    ap.add_argument("--out", default="/tmp/mutant_sweep.jsonl")
    ap.add_argument("--count", action="store_true", help="only count the mutants")
    args = ap.parse_args()
    from sa.engine import load_properties

    props = load_properties()
    pids = sorted(props) if args.props == "all" else args.props.split(",")
    by_file = {}
    for pid in pids:
        for entry in props[pid]["anchors"]["files"]:
            if "(all modules)" in entry:
                prefix = entry.split(" ")[0]
                for dirpath, _, names in os.walk(os.path.join(REPO_ROOT, prefix)):
                    for n in sorted(names):
                        if n.endswith(".py") and n != "__init__.py":
                            by_file.setdefault(os.path.relpath(os.path.join(dirpath, n), REPO_ROOT), []).append(pid)
            elif entry.endswith(".py") and entry.startswith("numpoly/"):
                by_file.setdefault(entry, []).append(pid)
    subs = [s for s in args.files.split(",") if s]
    ops = set(o for o in args.ops.split(",") if o)
    jobs = []
    for relpath in sorted(by_file):
        if subs and not any(s in relpath for s in subs):
            continue
        path = os.path.join(REPO_ROOT, relpath)
        if not os.path.exists(path):
            continue
        src = open(path, encoding="utf-8").read()
        for mut in mutants_of(relpath, src):
            if ops and mut[0] not in ops:
                continue
            jobs.append((relpath, src, mut, tuple(sorted(set(by_file[relpath])))))
    if args.limit:
        jobs = jobs[: args.limit]
    print(f"{len(jobs)} mutants in {len({j[0] for j in jobs})} files", flush=True)
    if args.count:
        from collections import Counter
        print(Counter(j[2][0] for j in jobs))
        return 0
    started = time.time()
    # group jobs with the same property tuple together so that the per-process baseline cache is hit
    jobs.sort(key=lambda j: (j[3], j[0], j[2][3]))
    n = {"killed": 0, "survived": 0, "error": 0}
    with open(args.out, "w", encoding="utf-8") as handle, ProcessPoolExecutor(max_workers=args.jobs) as pool:
        for done, record in enumerate(pool.map(_work, jobs, chunksize=4), 1):
            if record is None:
                continue
            handle.write(json.dumps(record) + "\n")
            handle.flush()
            statuses = {v["status"] for v in record["verdict"].values()}
            n["killed" if "killed" in statuses else ("error" if "error" in statuses else "survived")] += 1
            if done % 50 == 0:
                print(f"  {done}/{len(jobs)} {n} {time.time() - started:.0f}s", flush=True)
    print(f"done: {n} in {time.time() - started:.0f}s -> {args.out}")
    return 0


if __name__ == "__main__":
    sys.exit(main())
