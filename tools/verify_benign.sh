#!/bin/bash
# usage: verify_benign.sh <worktree> <dir with patch.diff>
# prints: <name> applies=<0|1> tests="<summary>" alarms=[ids with exit 1] errors=[ids with exit 2]
wt="$1"; sd="$2"; name=$(echo "$sd" | sed 's|.*/\(B[0-9]*\)/\([0-9]\)$|\1-\2|')
cd "$wt" || exit 9
git checkout -q -- .
if git apply --check "$sd/patch.diff" 2>/dev/null; then ap=0; else ap=1; fi
t=-; alarms=""; errors=""
if [ $ap = 0 ]; then
  git apply "$sd/patch.diff"
  t=$(timeout 900 /venv/bin/python -m pytest -q -p no:cacheprovider --timeout=900 2>&1 | tail -1 | sed 's/ in .*//')
  mkdir -p /tmp/w/evb_$name
  for i in $(seq -w 1 20); do
    NUMPOLY_REPO="$wt" VERIF_EVIDENCE_DIR=/tmp/w/evb_$name /venv/bin/python /verif/check C$i > /tmp/w/evb_$name/C$i.out 2>&1; rc=$?
    if [ $rc = 1 ]; then alarms="$alarms C$i"; fi
    if [ $rc = 2 ]; then errors="$errors C$i"; fi
  done
  git checkout -q -- .
fi
echo "$name applies=$ap tests=\"$t\" alarms=[$alarms ] errors=[$errors ]"
