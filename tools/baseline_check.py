#!/venv/bin/python
"""Run the pinned baseline command against a checkout and verify that every one of the 200 baseline tests passes.

usage: baseline_check.py [<repo dir, default /repo>]   -> prints 'baseline: 200/200 pass; other: <n> pass <m> fail' ; exit 1 on a regression"""
import json
import os
import subprocess
import sys
import tempfile
import xml.etree.ElementTree as ET

repo = sys.argv[1] if len(sys.argv) > 1 else "/repo"
base = json.load(open("/root/.vp/BASELINE.json"))
stable = set(base["stable_pass"])
with tempfile.TemporaryDirectory() as tmp:
    xml = os.path.join(tmp, "r.xml")
    subprocess.run(["/venv/bin/python", "-m", "pytest", "-ra", "-q", "-p", "no:cacheprovider", "--timeout=900",
                    "--continue-on-collection-errors", f"--junitxml={xml}"], cwd=repo, capture_output=True, text=True)
    passed, failed = set(), set()
    for case in ET.parse(xml).getroot().iter("testcase"):
        name = f"{case.get('classname')}::{case.get('name')}"
        bad = any(child.tag in ("failure", "error") for child in case)
        skipped = any(child.tag == "skipped" for child in case)
        (failed if bad else passed if not skipped else set()).add(name)
missing = sorted(stable - passed)
print(f"baseline: {len(stable & passed)}/{len(stable)} pass; other tests: {len(passed - stable)} pass, {len(failed - stable)} fail")
for name in missing:
    print("  REGRESSION", name)
for name in sorted(failed - stable):
    print("  (not in baseline) fails:", name)
sys.exit(1 if missing else 0)
