#!/venv/bin/python
"""Robustness stress: rewrite every module to 'import numpy as np' (in memory) and compare rule verdicts."""
import ast
import os
import re
import sys

sys.path.insert(0, os.path.dirname(os.path.dirname(os.path.abspath(__file__))))
from sa import AnalysisError  # noqa: E402
from sa.ctx import Ctx  # noqa: E402
from sa.plan import RULES  # noqa: E402
from sa.repo import Repo, REPO_ROOT  # noqa: E402


class Aliaser(ast.NodeTransformer):
    def visit_Import(self, node):
        out = []
        for alias in node.names:
            if alias.name == "numpy" and alias.asname is None:
                out.append(ast.Import(names=[ast.alias(name="numpy", asname="np")]))
            else:
                out.append(ast.Import(names=[alias]))
        return out

    def visit_Name(self, node):
        if node.id == "numpy":
            return ast.copy_location(ast.Name(id="np", ctx=node.ctx), node)
        return node


def overrides():
    out = {}
    root = os.path.join(REPO_ROOT, "numpoly")
    for dirpath, _dirs, files in os.walk(root):
        for name in files:
            if not name.endswith(".py"):
                continue
            path = os.path.join(dirpath, name)
            rel = os.path.relpath(path, REPO_ROOT)
            src = open(path, encoding="utf-8").read()
            if "import numpy\n" not in src:
                continue
            tree = ast.parse(src)
            has_typing = any(isinstance(n, ast.Import) and any(a.name == "numpy.typing" for a in n.names) for n in tree.body)
            tree = Aliaser().visit(tree)
            if has_typing:
                # 'import numpy.typing' keeps binding 'numpy'; annotations are strings (from __future__) or use np
                pass
            ast.fix_missing_locations(tree)
            out[rel] = ast.unparse(tree) + "\n"
    return out


def main():
    only = sys.argv[1:] or sorted(RULES)
    base = Ctx(Repo())
    mutated = Ctx(Repo(overrides=overrides()))
    bad = 0
    for rule in only:
        def run(ctx):
            try:
                res = RULES[rule](ctx)
                return {(f.rule, f.relpath, f.function, f.message[:60]) for f in res.findings}, len(res.obligations), None
            except AnalysisError as exc:
                return None, 0, str(exc)
        b, nb, berr = run(base)
        m, nm, merr = run(mutated)
        if merr and not berr:
            print(f"{rule}: ANALYSIS-ERROR after aliasing: {merr}")
            bad += 1
        elif b is not None and m is not None and (len(m) != len(b) or nm != nb):
            print(f"{rule}: findings {len(b)} -> {len(m)}, obligations {nb} -> {nm}")
            for item in sorted(m - b)[:4]:
                print("    +", item)
            bad += 1
        else:
            print(f"{rule}: stable")
    return 1 if bad else 0


if __name__ == "__main__":
    sys.exit(main())
