#!/venv/bin/python
"""Regenerate /verif/MANIFEST.json from sa/plan.py (single source of truth)."""
import json
import os
import sys

sys.path.insert(0, os.path.dirname(os.path.dirname(os.path.abspath(__file__))))
from sa.plan import PLAN, NOT_APPLICABLE  # noqa: E402
from sa.engine import load_properties  # noqa: E402

BASELINE = ("cd /repo && /venv/bin/python -m pytest -ra -q -p no:cacheprovider --timeout=900 "
            "--continue-on-collection-errors")

props = load_properties()
checks = []
for pid in sorted(PLAN):
    spec = PLAN[pid]
    rules = sorted({u.rule for u in spec["uses"]})
    checks.append({
        "property_id": pid,
        "quick_cmd": f"/venv/bin/python /verif/check {pid} --tier quick",
        "thorough_cmd": f"/venv/bin/python /verif/check {pid} --tier thorough",
        "evidence_file": f"/verif/evidence/{pid}.json",
        "replay_cmd_template": "/venv/bin/python /verif/check --explain {path}",
        "engine": "sa",
        "level_claimed": {
            "category": "other",
            "text": ("Static analysis of the current /repo source (no execution of numpoly): decides the "
                     "structural clauses of the property listed in 'explanation' on every path / at "
                     "every site; it does NOT decide: " + spec["not_decided"]),
            "design_ref": "DESIGN.md section 2 (rules " + ", ".join(rules) + ") and section 4",
        },
        "level_note": ("Decided: " + spec["explanation"] + " Trusted base: CPython ast semantics; numpy "
                       "metadata (signatures, ufunc-ness) of the installed numpy; A-DISPATCH, "
                       "A-NUMPY-PURE, A-KWARGS (DESIGN.md section 7); prebuilt .so == .pyx."),
        "technique": "static analysis: " + spec.get("technique", "AST path enumeration with provenance + structural rules " + ", ".join(rules)),
    })
manifest = {
    "version": 1,
    "setup_cmd": "/venv/bin/python -c \"import ast, numpy; print('static-analysis engine needs no build; numpy', numpy.__version__)\"",
    "hooks": {
        "guard": "NUMPOLY_VERIF",
        "enable": "no hooks: the checks read /repo's source text and never build or run it",
        "baseline_off_cmd": BASELINE,
        "source_commits": [],
        "add_only": True,
    },
    "engines": [{
        "name": "sa",
        "path": "/verif/sa",
        "serves_properties": sorted(PLAN),
        "kind_free_text": "repository-specific static analyser: loader + Cython-subset normaliser, "
                          "import/namespace resolver, path-enumerating symbolic interpreter with "
                          "provenance expressions, numpy platform facts, rule catalogue",
    }],
    "checks": checks,
    "not_applicable": [{"property_id": pid, "reason": reason} for pid, reason in sorted(NOT_APPLICABLE.items())
                       if pid not in PLAN],
    "notes": "All claims are for structural clauses only (see DESIGN.md section 0 and 4). Exit 1 + VIOLATION "
             "only for a positively identified construct; engine trouble is exit 2 (ANALYSIS-ERROR).",
}
missing = [p for p in props if p not in PLAN and p not in NOT_APPLICABLE]
if missing:
    sys.exit(f"properties neither planned nor declared not applicable: {missing}")
with open(os.path.join(os.path.dirname(os.path.dirname(os.path.abspath(__file__))), "MANIFEST.json"), "w") as handle:
    json.dump(manifest, handle, indent=1)
    handle.write("\n")
print("MANIFEST.json:", len(checks), "checks,", len(manifest["not_applicable"]), "not applicable")
