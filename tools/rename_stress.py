#!/venv/bin/python
"""Robustness stress: alpha-rename every local variable in every function of numpoly (in memory),
re-run every rule and compare the findings with the unmodified tree.  A rule that changes its
verdict under a pure renaming depends on variable names and must be hardened."""
import ast
import builtins
import os
import sys

sys.path.insert(0, os.path.dirname(os.path.dirname(os.path.abspath(__file__))))
from sa import AnalysisError  # noqa: E402
from sa.ctx import Ctx  # noqa: E402
from sa.plan import RULES  # noqa: E402
from sa.repo import Repo, REPO_ROOT  # noqa: E402


class Renamer(ast.NodeTransformer):
    def __init__(self, suffix):
        self.suffix = suffix
        self.stack = []

    def _locals(self, func):
        params = {a.arg for a in func.args.posonlyargs + func.args.args + func.args.kwonlyargs}
        if func.args.vararg:
            params.add(func.args.vararg.arg)
        if func.args.kwarg:
            params.add(func.args.kwarg.arg)
        stores = set()
        declared = set()
        for node in ast.walk(func):
            if isinstance(node, ast.Name) and isinstance(node.ctx, (ast.Store, ast.Del)):
                stores.add(node.id)
            elif isinstance(node, (ast.Global, ast.Nonlocal)):
                declared.update(node.names)
            elif isinstance(node, (ast.FunctionDef, ast.ClassDef)) and node is not func:
                declared.add(node.name)
            elif isinstance(node, ast.ExceptHandler) and node.name:
                declared.add(node.name)
        return {n for n in stores - params - declared if not hasattr(builtins, n) or True}

    def visit_FunctionDef(self, node):
        outer = self.stack[-1] if self.stack else set()
        mine = self._locals(node) if not self.stack else set()  # nested functions keep closure names
        self.stack.append(outer | mine)
        self.generic_visit(node)
        self.stack.pop()
        return node

    def visit_Name(self, node):
        if self.stack and node.id in self.stack[-1]:
            return ast.copy_location(ast.Name(id=node.id + self.suffix, ctx=node.ctx), node)
        return node


def renamed_overrides(suffix="_rn"):
    overrides = {}
    root = os.path.join(REPO_ROOT, "numpoly")
    for dirpath, _dirs, files in os.walk(root):
        for name in files:
            if not name.endswith(".py"):
                continue
            path = os.path.join(dirpath, name)
            rel = os.path.relpath(path, REPO_ROOT)
            src = open(path, encoding="utf-8").read()
            tree = ast.parse(src)
            tree = Renamer(suffix).visit(tree)
            ast.fix_missing_locations(tree)
            overrides[rel] = ast.unparse(tree) + "\n"
    return overrides


def main():
    only = sys.argv[1:] or sorted(RULES)
    base = Ctx(Repo())
    mutated = Ctx(Repo(overrides=renamed_overrides()))
    bad = 0
    for rule in only:
        def keys(ctx):
            try:
                return {(f.rule, f.relpath, f.function, f.message[:60]) for f in RULES[rule](ctx).findings}, None
            except AnalysisError as exc:
                return None, str(exc)
        b, berr = keys(base)
        m, merr = keys(mutated)
        if merr and not berr:
            print(f"{rule}: ANALYSIS-ERROR after renaming: {merr}")
            bad += 1
        elif b is not None and m is not None and len(m) != len(b):
            print(f"{rule}: findings {len(b)} -> {len(m)}")
            for item in sorted(m - b)[:4]:
                print("    +", item)
            bad += 1
        else:
            print(f"{rule}: stable ({len(b) if b is not None else 'err'})")
    return 1 if bad else 0


if __name__ == "__main__":
    sys.exit(main())
