#!/bin/bash
# usage: verify_seed.sh <worktree> <seeddir>   (seeddir contains patch.diff demo.py)
# prints one line: <seed> clean_demo=<rc> applies=<0|1> mut_demo=<rc> tests="<summary>" checks=<ids flagged>
wt="$1"; sd="$2"; name=$(echo "$sd" | sed 's|.*/\(C[0-9]*\)/\([a-z]\)$|\1\2|')
cd "$wt" || exit 9
git checkout -q -- . 
timeout 300 /venv/bin/python "$sd/demo.py" >/tmp/w/$name.clean.out 2>&1; c=$?
if git apply --check "$sd/patch.diff" 2>/dev/null; then ap=0; else ap=1; fi
m=-; t=-; flagged=""
if [ $ap = 0 ]; then
  git apply "$sd/patch.diff"
  timeout 300 /venv/bin/python "$sd/demo.py" >/tmp/w/$name.mut.out 2>&1; m=$?
  t=$(timeout 900 /venv/bin/python -m pytest -q -p no:cacheprovider --timeout=900 2>&1 | tail -1 | sed 's/ in .*//')
  mkdir -p /tmp/w/ev_$name
  for i in $(seq -w 1 20); do
    out=$(NUMPOLY_REPO="$wt" VERIF_EVIDENCE_DIR=/tmp/w/ev_$name /venv/bin/python /verif/check C$i 2>&1); rc=$?
    if [ $rc = 1 ]; then flagged="$flagged C$i"; fi
    if [ $rc = 2 ]; then flagged="$flagged C$i(ERR)"; fi
  done
  git checkout -q -- .
fi
echo "$name clean_demo=$c applies=$ap mut_demo=$m tests=\"$t\" flagged=[$flagged ]"
