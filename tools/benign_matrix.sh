#!/bin/bash
# usage: benign_matrix.sh [jobs]
# Applies every behaviour-preserving refactoring under /verif/benign/<id>/patch.diff to a scratch
# worktree of /repo (one worktree per job, removed afterwards) and runs all 20 quick checks against
# it.  Every line must end in "alarms=[ ] errors=[ ]"; exit 1 otherwise.
# The patches were written by independent sub-agents against /repo HEAD 64dd21e; a patch that no
# longer applies is reported as NOAPPLY and not counted.
jobs=${1:-10}; pattern=${2:-*}
here=$(cd "$(dirname "$0")/.." && pwd)
scratch=$(mktemp -d "${TMPDIR:-/tmp}/numpoly-benign.XXXXXX")
trap 'for w in "$scratch"/wt*; do [ -d "$w" ] && git -C /repo worktree remove --force "$w" 2>/dev/null; done; rm -rf "$scratch"' EXIT
i=0
for d in "$here"/benign/$pattern/; do echo "${d%/}" >> "$scratch/q$(( i % jobs ))"; i=$((i+1)); done
for j in $(seq 0 $((jobs-1))); do
  [ -f "$scratch/q$j" ] || continue
  (
    wt="$scratch/wt$j"
    git -C /repo worktree add -q --detach "$wt" HEAD || exit 9
    for d in $(cat "$scratch/q$j"); do
      name=$(basename "$d")
      git -C "$wt" checkout -q -- .
      if ! git -C "$wt" apply "$d/patch.diff" 2>/dev/null; then echo "$name NOAPPLY"; continue; fi
      alarms=""; errors=""
      for n in $(seq -w 1 20); do
        NUMPOLY_REPO="$wt" VERIF_EVIDENCE_DIR="$scratch/ev$j" "$here/check" C$n >/dev/null 2>&1; rc=$?
        [ $rc = 1 ] && alarms="$alarms C$n"; [ $rc = 2 ] && errors="$errors C$n"
      done
      echo "$name alarms=[$alarms ] errors=[$errors ]"
    done
  ) > "$scratch/res$j" 2>&1 &
done
wait
cat "$scratch"/res* | sort
if cat "$scratch"/res* | grep -v NOAPPLY | grep -qv "alarms=\[ \] errors=\[ \]"; then exit 1; fi
exit 0
