#!/bin/bash
# usage: seed_matrix.sh [jobs] [pattern] [verif dir] [out file]
# Applies every seeded change /verif/seeded/<pattern>/patch.diff to a scratch worktree of /repo (one per job, removed
# afterwards) and runs all 20 quick checks of <verif dir> (default: this checkout) against it.
# Output lines: "<id> flagged=[ C01 C02(ERR) ... ]"  (exit 1 -> listed, exit 2 -> listed with (ERR)); NOAPPLY if the
# patch no longer applies to /repo HEAD.
jobs=${1:-12}; pattern=${2:-*}
here=$(cd "$(dirname "$0")/.." && pwd)
vdir=${3:-$here}; out=${4:-/dev/stdout}
scratch=$(mktemp -d "${TMPDIR:-/tmp}/numpoly-seeds.XXXXXX")
trap 'for w in "$scratch"/wt*; do [ -d "$w" ] && git -C /repo worktree remove --force "$w" 2>/dev/null; done; rm -rf "$scratch"' EXIT
i=0
for d in "$here"/seeded/$pattern/; do [ -f "$d/patch.diff" ] || continue; echo "${d%/}" >> "$scratch/q$(( i % jobs ))"; i=$((i+1)); done
for j in $(seq 0 $((jobs-1))); do
  [ -f "$scratch/q$j" ] || continue
  (
    wt="$scratch/wt$j"
    git -C /repo worktree add -q --detach "$wt" HEAD || exit 9
    for d in $(cat "$scratch/q$j"); do
      name=$(basename "$d")
      git -C "$wt" checkout -q -- .
      if ! git -C "$wt" apply "$d/patch.diff" 2>/dev/null; then echo "$name NOAPPLY"; continue; fi
      flagged=""; rules=""
      own=$(sed -n 's/.*"breaks_property": "\(C[0-9]*\)".*/\1/p' "$d/meta.json" 2>/dev/null | head -1)
      props=$(seq -w 1 20)
      [ "${OWN_ONLY:-0}" = 1 ] && [ -n "$own" ] && props=${own#C}   # only the check of the property the seed was written against
      for n in $props; do
        NUMPOLY_REPO="$wt" VERIF_EVIDENCE_DIR="$scratch/ev$j" "$vdir/check" C$n >"$scratch/out$j" 2>&1; rc=$?
        [ $rc = 1 ] && flagged="$flagged C$n"; [ $rc = 2 ] && flagged="$flagged C$n(ERR)"
        [ "C$n" = "$own" ] && rules=$(grep -v KNOWN-FINDING "$scratch/out$j" | grep -o "\[R-[A-Z0-9-]*\]" | sort -u | tr -d '[]' | tr '\n' ',' | sed 's/,$//')
      done
      echo "$name flagged=[$flagged ] own_rules=$rules"
    done
  ) > "$scratch/res$j" 2>&1 &
done
wait
cat "$scratch"/res* | sort > "$out"
