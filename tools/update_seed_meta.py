#!/venv/bin/python
"""usage: update_seed_meta.py <detect results: lines '<seed id> flagged=[ C01 C02(ERR) ... ]'>
Refreshes the detection fields of /verif/seeded/<id>/meta.json from a matrix run of all 20 quick checks against
each seeded tree; the first recorded result is kept as 'first_run_*' (the honest baseline before tuning)."""
import json
import re
import sys

for line in open(sys.argv[1]):
    m = re.match(r"(\S+) flagged=\[(.*?)\](?: own_rules=(\S*))?", line.strip())
    if not m:
        continue
    ident, flagged = m.group(1), m.group(2).split()
    own_rules = [r for r in (m.group(3) or "").split(",") if r]
    path = f"/verif/seeded/{ident}/meta.json"
    meta = json.load(open(path))
    prop = meta["breaks_property"]
    if "first_run_quick_checks_reporting_VIOLATION" not in meta:
        meta["first_run_quick_checks_reporting_VIOLATION"] = meta.get("quick_checks_reporting_VIOLATION", [])
        meta["first_run_detected_by_its_own_property_check"] = meta.get("detected_by_its_own_property_check", False)
    meta["quick_checks_reporting_VIOLATION"] = [f for f in flagged if "(ERR)" not in f]
    meta["quick_checks_ANALYSIS_ERROR"] = [f for f in flagged if "(ERR)" in f]
    meta["detected_by_its_own_property_check"] = prop in meta["quick_checks_reporting_VIOLATION"]
    if own_rules or "own_check_rules" in meta:
        meta["own_check_rules"] = own_rules
    with open(path, "w") as handle:
        json.dump(meta, handle, indent=1)
        handle.write("\n")
