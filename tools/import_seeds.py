#!/venv/bin/python
"""Copy the confirmed seeded changes from /tmp/seeds into /verif/seeded/<id>/ with meta.json.

usage: import_seeds.py <results file produced by tools/verify_seed.sh> [<seed source dir> [<id prefix>]]"""
import json
import os
import re
import shutil
import subprocess
import sys

res_file = sys.argv[1]
SRC = sys.argv[2] if len(sys.argv) > 2 else "/tmp/seeds"
PREFIX = sys.argv[3] if len(sys.argv) > 3 else ""
head = subprocess.run(["git", "-C", "/repo", "rev-parse", "--short", "HEAD"], capture_output=True, text=True).stdout.strip()
for line in open(res_file):
    m = re.match(r'(C\d\d)([ab]) clean_demo=(\d+) applies=(\d) mut_demo=(\S+) tests="([^"]*)" flagged=\[(.*)\]', line.strip())
    if not m:
        continue
    prop, var, clean, applies, mut, tests, flagged = m.groups()
    ident = PREFIX + prop + var
    src = f"{SRC}/{prop}/{var}"
    confirmed = clean == "0" and applies == "0" and mut == "1" and (tests.startswith("2 failed, 219 passed") or tests.startswith("12 failed, 209 passed"))
    if not confirmed:
        print("NOT CONFIRMED", line.strip())
        continue
    dst = f"/verif/seeded/{ident}"
    os.makedirs(dst, exist_ok=True)
    for name in ("patch.diff", "demo.py", "notes.md"):
        if os.path.exists(os.path.join(src, name)):
            shutil.copy(os.path.join(src, name), os.path.join(dst, name))
    notes = open(os.path.join(src, "notes.md")).read() if os.path.exists(os.path.join(src, "notes.md")) else ""
    flagged_list = [f for f in flagged.split() if f]
    meta = {
        "id": ident,
        "breaks_property": prop,
        "author": "independent sub-agent given only the property text and a scratch worktree (nothing from /verif)",
        "needs_to_manifest": notes.strip().split("\n\n")[-1][:1500] if notes else "",
        "repo_head_when_confirmed": head,
        "confirmed_by_me": {
            "clean worktree: demo.py": "exit 0 (PASS)",
            "patch applied: demo.py": "exit 1 (FAIL)",
            "patch applied: full test suite": tests,
            "commands": [
                "git -C /repo worktree add /tmp/wt/vN HEAD; cp /repo/numpoly/cfunctions/*.so /tmp/wt/vN/numpoly/cfunctions/",
                "cd /tmp/wt/vN && /venv/bin/python /verif/seeded/%s/demo.py   # clean: exit 0" % ident,
                "git apply /verif/seeded/%s/patch.diff && /venv/bin/python /verif/seeded/%s/demo.py   # exit 1" % (ident, ident),
                "/venv/bin/python -m pytest -q -p no:cacheprovider --timeout=900   # 2 failed, 219 passed",
                "for i in 01..20: NUMPOLY_REPO=/tmp/wt/vN /venv/bin/python /verif/check C$i   # quick checks against the changed tree",
            ],
        },
        "quick_checks_reporting_VIOLATION": [f for f in flagged_list if "(ERR)" not in f],
        "quick_checks_ANALYSIS_ERROR": [f for f in flagged_list if "(ERR)" in f],
        "detected_by_its_own_property_check": prop in flagged_list,
    }
    with open(os.path.join(dst, "meta.json"), "w") as handle:
        json.dump(meta, handle, indent=1)
        handle.write("\n")
    print(ident, "->", flagged_list)
